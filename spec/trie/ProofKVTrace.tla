----------------------------- MODULE ProofKVTrace -----------------------------
(* Trace validation for ProofKV.tla (C08, variable-length keys): events recorded from      *)
(* trie.Prove / trie.VerifyProof on random tries whose keys have different lengths,        *)
(* include strict prefixes of each other and the empty key.                                *)
(*   trie    the key-value list of a new trie (keys as hex strings, values as ids)         *)
(*   vfull   VerifyProof over exactly the node set Prove emitted for the key               *)
(*   vextra  the same plus genuine nodes of another trie                                   *)
(*   vsub    VerifyProof over a subset of the trie's genuine nodes (omissions)             *)
(*   vother  another trie's root over this trie's nodes: only an error is sound            *)
EXTENDS ProofKV, Json, IOUtils, TLC

Trace == ndJsonDeserialize(IOEnv.TRACE)

VARIABLES l, kv

Ev == Trace[l]

KVFromList(list) == [x \in {list[i].k : i \in 1..Len(list)} |-> list[CHOOSE i \in 1..Len(list) : list[i].k = x].v]

Step(A) == l <= Len(Trace) /\ A /\ l' = l + 1

TTrie   == Step(Ev.op = "trie" /\ kv' = KVFromList(Ev.kv) /\ Cardinality(DOMAIN kv') = Len(Ev.kv))
TFull   == Step(Ev.op = "vfull" /\ CompleteOrEmpty(kv, Ev.key, Ev.res) /\ UNCHANGED kv)
TExtra  == Step(Ev.op = "vextra" /\ CompleteOrEmpty(kv, Ev.key, Ev.res) /\ UNCHANGED kv)
TSub    == Step(Ev.op = "vsub" /\ Sound(kv, Ev.key, Ev.res) /\ UNCHANGED kv)
TOther  == Step(Ev.op = "vother" /\ Ev.res = Err /\ UNCHANGED kv)

TraceInit == l = 1 /\ kv = <<>>
TraceNext == TTrie \/ TFull \/ TExtra \/ TSub \/ TOther
TraceSpec == TraceInit /\ [][TraceNext]_<<l, kv>>

TraceAccepted == TLCGet("stats").diameter - 1 = Len(Trace)
=============================================================================
