------------------------------- MODULE Trie -------------------------------
(* Property C06: the trie's root and contents depend only on the key-value set.          *)
(*                                                                                        *)
(* State machine of trie.Trie (trie/trie.go) over the structural layer of MPT.tla:        *)
(*   Put / Del        Trie.Update (non-empty / empty value) and Trie.Delete               *)
(*   BatchSeq         Trie.UpdateBatch taking the sequential fallback (root is not a      *)
(*                    branch, fewer than ParThreshold entries, or fewer than two          *)
(*                    children of the root that receive no deletion)                      *)
(*   BatchPar, Worker, BatchEnd                                                           *)
(*                    Trie.UpdateBatch in concurrent mode: the entries are grouped by     *)
(*                    their first nibble, one worker per group applies its entries in     *)
(*                    order to "its" child of the root *without* looking at the root;     *)
(*                    TLC interleaves the workers arbitrarily.                            *)
(* The property is the conjunction of the invariants at the end of the module.            *)
EXTENDS MPT

CONSTANTS MaxKeys,      \* state constraint: explore key-value sets up to this size
          BatchSet      \* set of batches (sequences of [k, v], v = 0 is a deletion) explored

ParThreshold == 4       \* trie.parallelUpdateThreshold

VARIABLES kv,           \* ghost: the key-value set the history amounts to
          tree,         \* the node graph (Trie.root)
          pend,         \* <<>> or, while a concurrent batch runs, [Nib -> Seq(op)] still to apply
          goal          \* ghost: key-value set the running batch must end with

vars == <<kv, tree, pend, goal>>

NoBatch == <<>>

ApplyKV(m, o)         == IF o.v = 0 THEN KVDel(m, o.k) ELSE KVPut(m, o.k, o.v)
ApplyTree(n, path, v) == IF v = 0 THEN Delete(n, path) ELSE Insert(n, path, v)

RECURSIVE FoldKV(_, _)
FoldKV(m, ops) == IF ops = <<>> THEN m ELSE FoldKV(ApplyKV(m, Head(ops)), Tail(ops))
RECURSIVE FoldTree(_, _)
FoldTree(n, ops) == IF ops = <<>> THEN n ELSE FoldTree(ApplyTree(n, Head(ops).k, Head(ops).v), Tail(ops))

Init == kv = EmptyKV /\ tree = Nil /\ pend = NoBatch /\ goal = EmptyKV

Put(k, v) == /\ pend = NoBatch
             /\ kv' = KVPut(kv, k, v) /\ tree' = Insert(tree, k, v)
             /\ UNCHANGED <<pend, goal>>

Del(k) == /\ pend = NoBatch
          /\ kv' = KVDel(kv, k) /\ tree' = Delete(tree, k)
          /\ UNCHANGED <<pend, goal>>

(* children of the root that exist and receive no deletion from the batch *)
Survivors(ops) == {i \in Nib : tree.ch[i] # Nil /\ ~\E j \in 1..Len(ops) : ops[j].v = 0 /\ ops[j].k[1] = i}
Parallel(ops)  == tree.t = "br" /\ Len(ops) >= ParThreshold /\ Cardinality(Survivors(ops)) >= 2

BatchSeq(ops) == /\ pend = NoBatch /\ ~Parallel(ops)
                 /\ kv' = FoldKV(kv, ops) /\ tree' = FoldTree(tree, ops)
                 /\ UNCHANGED <<pend, goal>>

BatchPar(ops) == /\ pend = NoBatch /\ Parallel(ops)
                 /\ pend' = [i \in Nib |-> SelectSeq(ops, LAMBDA o : o.k[1] = i)]
                 /\ goal' = FoldKV(kv, ops)
                 /\ UNCHANGED <<kv, tree>>

(* one entry of group i applied below the root: the root itself is not re-examined *)
Worker(i) == /\ pend # NoBatch /\ pend[i] # <<>>
             /\ LET o == Head(pend[i]) IN
                  /\ tree' = Br([tree.ch EXCEPT ![i] = ApplyTree(@, Tail(o.k), o.v)])
                  /\ kv' = ApplyKV(kv, o)
             /\ pend' = [pend EXCEPT ![i] = Tail(@)]
             /\ UNCHANGED goal

BatchEnd == /\ pend # NoBatch /\ \A i \in Nib : pend[i] = <<>>
            /\ pend' = NoBatch /\ goal' = EmptyKV
            /\ UNCHANGED <<kv, tree>>

Next == \/ \E k \in Keys : (\E v \in Vals : Put(k, v)) \/ Del(k)
        \/ \E ops \in BatchSet : BatchSeq(ops) \/ BatchPar(ops)
        \/ \E i \in Nib : Worker(i)
        \/ BatchEnd

Spec == Init /\ [][Next]_vars

Small == Cardinality(DOMAIN kv) <= MaxKeys

(* ------------------------------ properties ------------------------------ *)
Quiescent == pend = NoBatch

(* the node graph is the canonical tree of the key-value set, whatever the history: hence *)
(* Root(tree) = Root(CanonKV(kv)) = the root of a trie built directly from kv              *)
CanonInv == Quiescent => tree = CanonKV(kv)

(* lookups return exactly the set *)
LookupInv == Quiescent => \A k \in Keys : Lookup(tree, k) = IF k \in DOMAIN kv THEN kv[k] ELSE 0

(* iteration yields exactly the entries in ascending key order *)
IterInv == Quiescent =>
             LET sk == SortedKeys(DOMAIN kv) IN
             Leaves(tree, <<>>) = [i \in 1..Len(sk) |-> <<sk[i], kv[sk[i]]>>]

(* iteration from a start key yields exactly the entries at or after it, ascending *)
LeavesFrom(n, start) == SelectSeq(Leaves(n, <<>>), LAMBDA e : SeqLeq(start, e[1]))
IterFromInv == Quiescent =>
                 \A start \in Keys :
                   LET sk == SortedKeys({k \in DOMAIN kv : SeqLeq(start, k)}) IN
                   LeavesFrom(tree, start) = [i \in 1..Len(sk) |-> <<sk[i], kv[sk[i]]>>]

WFInv == Quiescent => WellFormed(tree, 0)

(* concurrent batch: every worker keeps its child canonical for its share of the keys, the *)
(* root never needs to collapse (this is what the survivors test must guarantee), and the  *)
(* batch ends with the key-value set of the sequential semantics                           *)
SubPairs(m, i) == {<<Tail(k), m[k]>> : k \in {x \in DOMAIN m : x[1] = i}}
BatchInv == ~Quiescent =>
              /\ tree.t = "br"
              /\ \A i \in Nib : tree.ch[i] = Canon(SubPairs(kv, i))
              /\ Cardinality({i \in Nib : tree.ch[i] # Nil}) >= 2
              /\ ((\A i \in Nib : pend[i] = <<>>) => kv = goal)
=============================================================================
