------------------------------ MODULE MCTrieGen ------------------------------
(* Model-checking wrapper of TrieGen: every finished generation is printed as a case        *)
(* (layout, corrected flat state, counters, node key space) for the Go driver, which         *)
(* materialises the layout in a real database and runs triedb.GenerateTrie on it.            *)
EXTENDS TrieGen, Json, SequencesExt

K(a, b) == <<a, b>>
MCAcctKeys4 == {K(0, 0), K(0, 1), K(0, 15), K(15, 1)}
MCAcctKeys5 == {K(0, 0), K(0, 1), K(0, 15), K(1, 0), K(15, 1)}
MCAcctKeys3 == {K(0, 0), K(0, 1), K(15, 1)}
MCSlotKeys == {K(0, 1), K(1, 1)}
MCSlotVal == [s \in MCSlotKeys |-> IF s = K(0, 1) THEN 11 ELSE 12]

(* slot hashes that share 62 nibbles: the storage tries get embedded (< 32 byte) nodes, so  *)
(* the stored node set is smaller than the node set (configuration with Pad = 0)            *)
P62 == [i \in 1..62 |-> 0]
MCSlotKeysLong == {P62 \o K(0, 1), P62 \o K(0, 15), P62 \o K(1, 1)}
MCSlotValLong == [s \in MCSlotKeysLong |-> IF s[64] = 1 THEN 11 ELSE 12]

KeySeq(S) == SortedKeys(S)
EntrySeq(S) == SetToSortSeq(S, LAMBDA e, f : EntryLess(e, f))
PathSeq(S) == SetToSortSeq(S, LAMBDA a, b : SeqLess(a, b))

AssembleKind == LET n == Cardinality(Populated) IN
  IF n = 0 THEN "empty" ELSE IF n >= 2 THEN "branch"
  ELSE LET p == CHOOSE x \in Populated : TRUE IN "fold-" \o proot[p].t

Case == [accounts |-> [i \in 1..Len(KeySeq(DOMAIN flat0.A)) |->
                         [key |-> KeySeq(DOMAIN flat0.A)[i], stale |-> flat0.A[KeySeq(DOMAIN flat0.A)[i]].stale]],
         storage  |-> [i \in 1..Len(EntrySeq(flat0.S)) |->
                         [owner |-> EntrySeq(flat0.S)[i][1], slot |-> EntrySeq(flat0.S)[i][2], val |-> SlotVal[EntrySeq(flat0.S)[i][2]]]],
         flatA    |-> KeySeq(DOMAIN flatA),
         staleAfter |-> KeySeq({a \in DOMAIN flatA : flatA[a].stale}),
         flatS    |-> [i \in 1..Len(EntrySeq(flatS)) |-> [owner |-> EntrySeq(flatS)[i][1], slot |-> EntrySeq(flatS)[i][2]]],
         scanned  |-> stats.scanned, updated |-> stats.updated, deleted |-> stats.deleted,
         acctPaths |-> PathSeq({x.path : x \in {y \in nodes : y.owner = None}}),
         storPaths |-> [i \in 1..Len(KeySeq(DOMAIN flatA)) |->
                         [owner |-> KeySeq(DOMAIN flatA)[i],
                          paths |-> PathSeq({x.path : x \in {y \in nodes : y.owner = KeySeq(DOMAIN flatA)[i]}})]],
         kind |-> AssembleKind]

Emit == IF Finished /\ want = "correct" THEN PrintT(<<"CASE", ToJson(Case)>>) ELSE TRUE
=============================================================================
