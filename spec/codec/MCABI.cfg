SPECIFICATION Spec
CONSTANTS Level = "thorough"
INVARIANTS RoundTrip Canonical TruncationRejected Emit
CHECK_DEADLOCK FALSE
