SPECIFICATION MCSpec
CONSTANTS FirstSyms = {247, 248, 249, 255}
          MaxLen = 4
          FillBelow = 3
INVARIANTS Canonical Agreement Helpers Emit
CHECK_DEADLOCK FALSE
