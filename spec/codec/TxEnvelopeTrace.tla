--------------------------- MODULE TxEnvelopeTrace ---------------------------
(* Trace validation for TxEnvelope.tla (property C02): every line is one call on         *)
(* core/types.Transaction with everything observed about the result; it is accepted iff  *)
(* the specification's operators give the same verdict, fields, encodings, hash preimage *)
(* and sizes for the logged input.                                                       *)
EXTENDS TxEnvelope, Json, IOUtils, TLC

Trace == ndJsonDeserialize(IOEnv.TRACE)
VARIABLE l
Ev == Trace[l]

Step(A) == l <= Len(Trace) /\ A /\ l' = l + 1

(* sizes are the lengths of the envelopes, with and without the sidecar *)
Sizes(tx, size, noscsz) == size = Size(tx) /\ noscsz = Size(WithoutSidecar(tx))

Common(tx) == /\ Ev.bin = Marshal(tx) /\ Ev.net = EncodeNetwork(tx)
              /\ Ev.pre = HashPreimage(tx) /\ Ev.hashok

(* a transaction built through the API: its encodings are the specification's *)
TMarshal == Step(Ev.op = "marshal" /\ LET tx == Tx(Ev.typ, Ev.v, Ev.sc) IN
                 /\ WFTx(tx) /\ Common(tx) /\ Ev.json = "ok"
                 /\ DecodeBinary(Ev.bin).ok /\ DecodeBinary(Ev.bin).tx = tx
                 /\ Sizes(tx, Ev.size, Ev.noscsz))

Verdict(r) == r.ok = Ev.ok /\ (~r.ok => Ev.cls \in r.c)
Decoded(r) == r.ok => /\ r.tx = Tx(Ev.typ, Ev.v, Ev.sc) /\ Common(r.tx) /\ Ev.json \in {"ok", "skip"}
                      /\ Sizes(r.tx, Ev.size, Ev.noscsz)

TUnmarshal == Step(Ev.op = "unmarshal" /\ LET r == DecodeBinary(Ev.in) IN
                 Verdict(r) /\ Decoded(r) /\ (r.ok => Ev.bin = Ev.in))
TDecodeRLP == Step(Ev.op = "decoderlp" /\ LET r == DecodeNetwork(Ev.in) IN
                 Verdict(r) /\ Decoded(r) /\ (r.ok => Ev.net = Ev.in))

(* a list of transactions decoded at once: verdict, the envelope of every element, their  *)
(* sizes and hashes, and the canonical re-encoding of the whole list                       *)
TTxList == Step(Ev.op = "txlist" /\ LET r == DecodeTxList(Ev.in) IN
                 /\ r.ok = Ev.ok /\ (~r.ok => Ev.cls \in r.c)
                 /\ (r.ok => /\ Len(r.txs) = Len(Ev.bins)
                             /\ \A i \in 1..Len(r.txs) : /\ Ev.bins[i] = Marshal(r.txs[i])
                                                         /\ Ev.sizes[i] = Size(r.txs[i])
                             /\ Ev.hashok /\ Ev.reenc = Ev.in /\ EncodeTxList(r.txs) = Ev.in))

TraceInit == l = 1
TraceNext == TMarshal \/ TUnmarshal \/ TDecodeRLP \/ TTxList
TraceSpec == TraceInit /\ [][TraceNext]_l

TraceAccepted == TLCGet("stats").diameter - 1 = Len(Trace)
=============================================================================
