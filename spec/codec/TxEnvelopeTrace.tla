--------------------------- MODULE TxEnvelopeTrace ---------------------------
(* Trace validation for TxEnvelope.tla (property C02): every line is one call on         *)
(* core/types.Transaction with everything observed about the result; it is accepted iff  *)
(* the specification's operators give the same verdict, fields, encodings, hash preimage *)
(* and sizes for the logged input.                                                       *)
EXTENDS TxEnvelope, Json, IOUtils, TLC

CONSTANT KnownFindings        \* TRUE: tolerate (and count) the TODO-KNOWN-FINDING deviations

Trace == ndJsonDeserialize(IOEnv.TRACE)
VARIABLES l, known            \* known = number of events explained only by a known finding
Ev == Trace[l]

Step(A) == l <= Len(Trace) /\ A /\ l' = l + 1

(* sizes: the envelope lengths, or (pending) the values of the known finding *)
SizesExact(tx, size, noscsz) == size = Size(tx) /\ noscsz = Size(WithoutSidecar(tx))
SizesKnown(tx, size, noscsz, fresh) ==
  /\ KnownFindings /\ KnownSidecarSize(tx)
  /\ size = (IF fresh THEN ApproxSize(tx) ELSE Size(tx))
  /\ noscsz = (IF fresh THEN Size(WithoutSidecar(tx)) ELSE ApproxNoScSize(tx))
Sizes(tx, size, noscsz, fresh) ==
  \/ SizesExact(tx, size, noscsz) /\ known' = known
  \/ ~SizesExact(tx, size, noscsz) /\ SizesKnown(tx, size, noscsz, fresh) /\ known' = known + 1

Common(tx) == /\ Ev.bin = Marshal(tx) /\ Ev.net = EncodeNetwork(tx)
              /\ Ev.pre = HashPreimage(tx) /\ Ev.hashok

(* a transaction built through the API: its encodings are the specification's *)
TMarshal == Step(Ev.op = "marshal" /\ LET tx == Tx(Ev.typ, Ev.v, Ev.sc) IN
                 /\ WFTx(tx) /\ Common(tx) /\ Ev.json = "ok"
                 /\ DecodeBinary(Ev.bin).ok /\ DecodeBinary(Ev.bin).tx = tx
                 /\ Sizes(tx, Ev.size, Ev.noscsz, TRUE))

Verdict(r) == r.ok = Ev.ok /\ (~r.ok => Ev.cls \in r.c /\ known' = known)
Decoded(r) == r.ok => /\ r.tx = Tx(Ev.typ, Ev.v, Ev.sc) /\ Common(r.tx) /\ Ev.json \in {"ok", "skip"}
                      /\ Sizes(r.tx, Ev.size, Ev.noscsz, FALSE)

TUnmarshal == Step(Ev.op = "unmarshal" /\ LET r == DecodeBinary(Ev.in) IN
                 Verdict(r) /\ Decoded(r) /\ (r.ok => Ev.bin = Ev.in))
TDecodeRLP == Step(Ev.op = "decoderlp" /\ LET r == DecodeNetwork(Ev.in) IN
                 Verdict(r) /\ Decoded(r) /\ (r.ok => Ev.net = Ev.in))

(* a list of transactions decoded at once: verdict, the envelope of every element, their  *)
(* sizes and hashes, and the canonical re-encoding of the whole list                       *)
TTxList == Step(Ev.op = "txlist" /\ known' = known /\ LET r == DecodeTxList(Ev.in) IN
                 /\ r.ok = Ev.ok /\ (~r.ok => Ev.cls \in r.c)
                 /\ (r.ok => /\ Len(r.txs) = Len(Ev.bins)
                             /\ \A i \in 1..Len(r.txs) : /\ Ev.bins[i] = Marshal(r.txs[i])
                                                         /\ Ev.sizes[i] = Size(r.txs[i])
                             /\ Ev.hashok /\ Ev.reenc = Ev.in /\ EncodeTxList(r.txs) = Ev.in))

TraceInit == l = 1 /\ known = 0
TraceNext == TMarshal \/ TUnmarshal \/ TDecodeRLP \/ TTxList
TraceSpec == TraceInit /\ [][TraceNext]_<<l, known>>

TraceAccepted == /\ TLCGet("stats").diameter - 1 = Len(Trace)
KnownReport == (l = Len(Trace) + 1) => PrintT(<<"KNOWN", ToJson(known)>>)
=============================================================================
