SPECIFICATION MCSpec
CONSTANTS Depth = 2
          Width = 2
          NStr = 6
INVARIANTS RoundTrip EncCanonical RawView
CHECK_DEADLOCK FALSE
