SPECIFICATION MCSpec
CONSTANTS CodeSets <- Trio
          AlphaLen = 0
          Aligns = {}
          Pushes = {}
INVARIANTS CacheSound FrameSound AnswerRight CachedEqualsFresh
ACTION_CONSTRAINT Edge
VIEW View
CHECK_DEADLOCK FALSE
