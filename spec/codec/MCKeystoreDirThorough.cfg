SPECIFICATION DSpec
CONSTANTS Passes = {"A", "E", "U"}
          Keys = {1, 2}
          MaxAccounts = 2
INVARIANTS StoreRoundTrip DirBounded
CONSTRAINT BlobBound
ACTION_CONSTRAINT Edge
VIEW DView
CHECK_DEADLOCK FALSE
