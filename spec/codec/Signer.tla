------------------------------- MODULE Signer -------------------------------
(* Transaction signing and sender recovery as a decision table (property C03).           *)
(* Sources: Yellow Paper app. F (0 < r < n, 0 < s < n, v in {27,28}), EIP-2 (Homestead:   *)
(* s <= n/2), EIP-155 (v = 35 + 2*chainId + parity, nine-field signing hash, 27/28 stay   *)
(* valid), EIP-2718/2930/1559/4844/7702 (typed payloads: y-parity in {0,1}, the chain id   *)
(* is a signed field and must be the chain's, signing hash = keccak(type || rlp(fields    *)
(* without the signature))).  The curve itself is not modelled: a signature is described  *)
(* by how it relates to an honest signature (r0, s0, p0) of the sender's key over some    *)
(* preimage - which is exactly what decides the outcome of recovery.                      *)
(*                                                                                       *)
(* The module also models the one piece of state involved: the sender cache a             *)
(* transaction object carries (types.Sender), as an action system over `cache`.           *)
EXTENDS Integers, Sequences, FiniteSets, TLC

(* ------------------------------ signers ------------------------------------------- *)
(* kinds in activation order; a signer is [kind, chain] (chain = -1: not replay aware)    *)
Frontier == 1  Homestead == 2  EIP155 == 3  Berlin == 4  London == 5  Cancun == 6  Prague == 7
Kinds == Frontier..Prague

BigChain == 1000000007          \* token for a chain id wider than 64 bits (driver: 2^70 + 12345)
Chains   == {0, 1, 1337, BigChain}

LegacyTx == 0  AccessListTx == 1  DynamicFeeTx == 2  BlobTx == 3  SetCodeTx == 4
TxTypes == LegacyTx..SetCodeTx

TypesOf(kind) ==
  CASE kind <= EIP155 -> {LegacyTx}
    [] kind = Berlin  -> {LegacyTx, AccessListTx}
    [] kind = London  -> {LegacyTx, AccessListTx, DynamicFeeTx}
    [] kind = Cancun  -> {LegacyTx, AccessListTx, DynamicFeeTx, BlobTx}
    [] kind = Prague  -> TxTypes

LegacyRule(kind) == IF kind = Frontier THEN "frontier" ELSE IF kind = Homestead THEN "homestead" ELSE "eip155"

(* Signers that exist: the two chain-agnostic ones, EIP-155 for any chain id >= 0, the    *)
(* typed-transaction signers only for positive chain ids.                                 *)
Signers ==
  {[kind |-> k, chain |-> -1] : k \in {Frontier, Homestead}}
  \cup {[kind |-> EIP155, chain |-> c] : c \in Chains}
  \cup {[kind |-> k, chain |-> c] : k \in Berlin..Prague, c \in Chains \ {0}}

(* fork ladder -> signer kind (types.MakeSigner): position in the ladder of named forks   *)
ForkNames == << "Frontier", "Homestead", "TangerineWhistle", "SpuriousDragon", "Byzantium", "Constantinople",
                "Petersburg", "Istanbul", "MuirGlacier", "Berlin", "London", "ArrowGlacier", "GrayGlacier", "Paris",
                "Shanghai", "Cancun", "Prague", "Osaka" >>
KindOfFork(i) ==
  CASE i = 1  -> Frontier
    [] i \in 2..3 -> Homestead          \* EIP-155 arrives with Spurious Dragon
    [] i \in 4..9 -> EIP155
    [] i = 10 -> Berlin
    [] i \in 11..15 -> London
    [] i = 16 -> Cancun
    [] OTHER  -> Prague

(* types.LatestSigner: the most permissive signer for a configuration whose last scheduled  *)
(* fork is i - never the Frontier rule                                                      *)
LatestKindOfFork(i) == IF KindOfFork(i) = Frontier THEN Homestead ELSE KindOfFork(i)

(* ------------------------------ signed transactions -------------------------------- *)
(* tx = [type, chain, vk, vchain, par, hash, r, s]                                        *)
(*  chain  : chain-id field of a typed payload (-1 for legacy)                            *)
(*  vk     : how the v field is encoded                                                   *)
(*           legacy: "u" 27+p | "prot" 35+2*vchain+p | "raw" p | "junk" (29) | "huge" >= 2^64 *)
(*           typed : "par" p | "two" 2+p | "v27" 27+p | "v255" 255 | "v256" 256+p | "huge" *)
(*  par    : "ok" p = p0 | "flip" p = 1-p0                                                *)
(*  hash   : "match"  (r0,s0,p0) was made over the signing hash the EIPs derive from this  *)
(*                    transaction (its type, fields and v encoding)                        *)
(*           "mismatch" it was made over some other preimage                              *)
(*  r      : "ok" r0 | "zero" | "N" | "max" (2^256-1)                                     *)
(*  s      : "low" s0 | "highM" n-s0 | "half" floor(n/2) | "half1" floor(n/2)+1 | "Nm1" n-1 *)
(*           | "zero" | "N" | "max"                                                       *)
LegacyVKinds == {"u", "prot", "raw", "junk", "huge"}
TypedVKinds  == {"par", "two", "v27", "v255", "v256", "huge"}
RKinds == {"ok", "zero", "N", "max"}
SKinds == {"low", "highM", "half", "half1", "Nm1", "zero", "N", "max"}
Pars   == {"ok", "flip"}
Hashes == {"match", "mismatch"}

Outcomes == {"Signer", "Other", "ErrTxType", "ErrChainId", "ErrSig"}

(* low-s is required except for legacy payloads under the Frontier rule (EIP-2) *)
Strict(sg, tx) == ~(tx.type = LegacyTx /\ LegacyRule(sg.kind) = "frontier")

ValueFaults(sg, tx) ==
  IF \/ tx.r \in {"zero", "N", "max"}
     \/ tx.s \in {"zero", "N", "max"}
     \/ (Strict(sg, tx) /\ tx.s \in {"highM", "half1", "Nm1"})
  THEN {"ErrSig"} ELSE {}

VFaults(sg, tx) ==
  IF tx.type = LegacyTx
  THEN IF LegacyRule(sg.kind) # "eip155"
       THEN (IF tx.vk = "u" THEN {} ELSE {"ErrSig"})
       ELSE CASE tx.vk = "u"    -> {}
              [] tx.vk = "prot" -> (IF tx.vchain = sg.chain THEN {} ELSE {"ErrChainId"})
              [] OTHER          -> {"ErrSig", "ErrChainId"}     \* not a v of any scheme: either class
  ELSE (IF tx.chain # sg.chain THEN {"ErrChainId"} ELSE {})
       \cup (IF tx.vk = "par" THEN {} ELSE {"ErrSig"})

Faults(sg, tx) ==
  IF tx.type \notin TypesOf(sg.kind) THEN {"ErrTxType"}
  ELSE VFaults(sg, tx) \cup ValueFaults(sg, tx)

(* who an admissible signature recovers to: the key holder iff the signature is the       *)
(* honest one or its (r, n-s, 1-p) twin over the right preimage                            *)
Recovered(tx) ==
  IF /\ tx.hash = "match" /\ tx.r = "ok"
     /\ ((tx.s = "low" /\ tx.par = "ok") \/ (tx.s = "highM" /\ tx.par = "flip"))
  THEN "Signer" ELSE "Other"

(* outcomes of Sender(sg, tx) the specification admits (several rejection reasons may be  *)
(* present at once; which one is reported is not normative)                                *)
Allowed(sg, tx) == IF Faults(sg, tx) # {} THEN Faults(sg, tx) ELSE {Recovered(tx)}

(* ------------------------------ signing -------------------------------------------- *)
(* SignTx(sg, unsigned tx of `type` whose chain field is txChain)                          *)
SignOutcome(sg, type, txChain) ==
  IF type \notin TypesOf(sg.kind) THEN "ErrTxType"
  ELSE IF type # LegacyTx /\ txChain \notin {0, sg.chain} THEN "ErrChainId"   \* 0 = "not filled in"
  ELSE "ok"

SignedTx(sg, type) ==
  IF type = LegacyTx
  THEN [type |-> LegacyTx, chain |-> -1,
        vk |-> IF LegacyRule(sg.kind) = "eip155" THEN "prot" ELSE "u",
        vchain |-> IF LegacyRule(sg.kind) = "eip155" THEN sg.chain ELSE -1,
        par |-> "ok", hash |-> "match", r |-> "ok", s |-> "low"]
  ELSE [type |-> type, chain |-> sg.chain, vk |-> "par", vchain |-> -1,
        par |-> "ok", hash |-> "match", r |-> "ok", s |-> "low"]

(* ------------------------------ signing-hash preimages ----------------------------- *)
SigFields == {"v", "r", "s", "yParity"}
SigHashFields(type, protected) ==
  CASE type = LegacyTx /\ ~protected -> << "nonce", "gasPrice", "gas", "to", "value", "data" >>
    [] type = LegacyTx /\ protected  -> << "nonce", "gasPrice", "gas", "to", "value", "data", "chainId", "zero", "zero" >>
    [] type = AccessListTx -> << "chainId", "nonce", "gasPrice", "gas", "to", "value", "data", "accessList" >>
    [] type = DynamicFeeTx -> << "chainId", "nonce", "maxPriorityFeePerGas", "maxFeePerGas", "gas", "to", "value", "data", "accessList" >>
    [] type = BlobTx       -> << "chainId", "nonce", "maxPriorityFeePerGas", "maxFeePerGas", "gas", "to", "value", "data", "accessList",
                                 "maxFeePerBlobGas", "blobVersionedHashes" >>
    [] type = SetCodeTx    -> << "chainId", "nonce", "maxPriorityFeePerGas", "maxFeePerGas", "gas", "to", "value", "data", "accessList",
                                 "authorizationList" >>
Range(f) == {f[i] : i \in DOMAIN f}

(* ------------------------------ laws ------------------------------------------------ *)
(* signing then recovering yields the key holder, for every signer and supported type *)
RoundTrip ==
  \A sg \in Signers, t \in TxTypes, c \in Chains :
     SignOutcome(sg, t, c) = "ok" => Allowed(sg, SignedTx(sg, t)) = {"Signer"}

(* a properly signed transaction is attributed to its signer by another signer exactly    *)
(* when that signer supports the type and the replay domains agree                        *)
CrossSigner ==
  \A a \in Signers, b \in Signers : \A t \in TypesOf(a.kind) :
     LET tx == SignedTx(a, t)
         compatible == IF t = LegacyTx
                       THEN (LegacyRule(a.kind) = "eip155" => (LegacyRule(b.kind) = "eip155" /\ b.chain = a.chain))
                       ELSE b.chain = a.chain
     IN  ("Signer" \in Allowed(b, tx)) <=> (t \in TypesOf(b.kind) /\ compatible)

(* the signature fields are not part of any signing hash *)
HashExcludesSignature ==
  \A t \in TxTypes, p \in BOOLEAN : Range(SigHashFields(t, p)) \cap SigFields = {}

(* per-row laws, evaluated on every enumerated (signer, tx) *)
RowNonEmpty(sg, tx)   == Allowed(sg, tx) # {} /\ Allowed(sg, tx) \subseteq Outcomes
RowHighS(sg, tx)      == (tx.s \in {"highM", "half1", "Nm1"} /\ Allowed(sg, tx) \cap {"Signer", "Other"} # {})
                            => (tx.type = LegacyTx /\ sg.kind = Frontier)
RowRange(sg, tx)      == (tx.r # "ok" \/ tx.s \in {"zero", "N", "max"}) => Allowed(sg, tx) \cap {"Signer", "Other"} = {}
RowChain(sg, tx)      == (tx.type # LegacyTx /\ tx.type \in TypesOf(sg.kind) /\ tx.chain # sg.chain) => "ErrChainId" \in Allowed(sg, tx)
                         /\ ((tx.type = LegacyTx /\ tx.vk = "prot" /\ tx.vchain # sg.chain) => Allowed(sg, tx) \cap {"Signer", "Other"} = {})
(* a later signer of the same chain decides every transaction an earlier one accepts the same way *)
RowMonotone(sg, tx)   ==
  \A k \in Kinds : (k > sg.kind /\ sg.kind >= EIP155 /\ sg.chain > 0 /\ Allowed(sg, tx) \subseteq {"Signer", "Other"})
                      => Allowed([kind |-> k, chain |-> sg.chain], tx) = Allowed(sg, tx)

(* ------------------------------ secp256k1 backend, by input class ------------------- *)
(* crypto.Sign / Ecrecover / SigToPub / VerifySignature on [R || S || V], V the recovery   *)
(* id.  (r0, s0, v0) is an honest low-s signature of the key over the digest.  Ecrecover   *)
(* itself has no low-s rule; VerifySignature rejects high s (malleability).  Recovery ids  *)
(* are 0..3 (SEC 1, 4.1.6); ids 2 and 3 need r + n < p, which no honest r satisfies.       *)
RecoverAccepting == {"valid", "highTwin", "flipV", "otherHash"}
RecoverRejecting == {"v23", "vBad", "rZero", "sZero", "rN", "sN", "rMax", "sMax", "shortSig", "shortHash"}
RecoverIsKey     == {"valid", "highTwin"}
RecoverOK(class, ok, isKey) ==
  /\ (class \in RecoverAccepting => ok /\ (isKey <=> class \in RecoverIsKey))
  /\ (class \in RecoverRejecting => ~ok /\ ~isKey)
VerifyAccepting == {"valid", "validCompressed"}
VerifyRejecting == {"highTwin", "otherKey", "otherHash", "rZero", "sZero", "rN", "sMax", "len65", "badPub"}
VerifyOK(class, res) ==
  /\ (class \in VerifyAccepting => res)
  /\ (class \in VerifyRejecting => ~res)

(* ------------------------------ the sender cache (types.Sender) --------------------- *)
(* A transaction object remembers the last successfully derived (signer, sender); a later *)
(* query is answered from the cache only when it is made with an equal signer.            *)
VARIABLES tx,      \* the transaction object under consideration
          cache,   \* "none" or [signer, from]
          out      \* result of the last Sender call: [signer, res]

NoCache == [signer |-> [kind |-> 0, chain |-> -1], from |-> "none"]

Answers(t, c, sg)       == IF c.from # "none" /\ c.signer = sg THEN {c.from} ELSE Allowed(sg, t)
CacheAfter(c, sg, res)  == IF c.from # "none" /\ c.signer = sg THEN c
                           ELSE IF res \in {"Signer", "Other"} THEN [signer |-> sg, from |-> res] ELSE c

SenderCall(sg) ==
  /\ UNCHANGED tx
  /\ \E res \in Answers(tx, cache, sg) :
        /\ out' = [signer |-> sg, res |-> res]
        /\ cache' = CacheAfter(cache, sg, res)

(* the cache is invisible: every answer is one the table admits for the asking signer *)
CacheTransparent == out.res = "init" \/ out.res \in Allowed(out.signer, tx)
CacheSound       == cache.from = "none" \/ cache.from \in Allowed(cache.signer, tx)
=============================================================================
