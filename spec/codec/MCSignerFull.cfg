SPECIFICATION Spec
CONSTANTS
  TxChains = {0, 1, 1337, 1000000007}
  Full = TRUE
  Mode = "table"
INVARIANTS TableLaws GlobalLaws EmitRow EmitStatic
CHECK_DEADLOCK FALSE
