---------------------------- MODULE HexPrefixMem ----------------------------
(* Property C10, ownership layer: the conversions are pure.  Every non-in-place conversion  *)
(* returns a FRESH buffer that shares no storage with its argument, with earlier results    *)
(* or with anything the package keeps; the in-place conversion writes to its argument only. *)
(* Therefore the result of a call is the specification function of the argument's content   *)
(* at call time, whatever happened before (history independence), and whatever a caller     *)
(* does to a buffer it owns -- overwrite it, append to it, encode it in place -- changes no  *)
(* other buffer and no later result.                                                        *)
(*                                                                                         *)
(* State: mem = the caller-visible buffers (sequence of contents).  Calls append a fresh    *)
(* buffer; InPlace replaces the argument by the returned slice; Scribble/Push are the       *)
(* caller overwriting / appending to a buffer it owns.  The law NoForeignWrites says the    *)
(* only buffer an action may change is the one it is applied to; the replay executes every  *)
(* behaviour on real Go slices and compares ALL buffers after every step.                   *)
EXTENDS HexPrefix, Json

CONSTANTS MemAlpha,     \* nibbles used for keys of the buffer machine
          MemLen,       \* length bound of these keys
          MaxBufs,      \* bound on the number of buffers
          MemDepth      \* bound on the number of steps

VARIABLES mem,          \* Seq(content)
          mact,         \* label of the last step
          mhist         \* history of steps with the content of every buffer after it

mvars == << mem, mact, mhist >>

MemPaths  == SeqsUpTo(MemAlpha, MemLen)
MemHex    == MemPaths \cup {p \o << Term >> : p \in MemPaths}
MemFirst  == MemHex \cup {HexToCompact(x) : x \in MemHex}

IsHexKey(x)  == \A i \in 1..Len(x) : x[i] \in 0..15 \/ (i = Len(x) /\ x[i] = Term)
IsCompact(x) == Len(x) >= 1 /\ (\A i \in 1..Len(x) : x[i] \in 0..255) /\ Canonical(x)

(* the loop machine of HexPrefix idles *)
LoopIdle == h = << >> /\ buf = << >> /\ pc = "na" /\ hexLen = 0 /\ first = 0 /\ ni = 0 /\ bi = 0

Rec(op, i) == [op |-> op, i |-> i, mem |-> mem']

MInit ==
  /\ LoopIdle
  /\ \E x \in MemFirst : mem = << x >> /\ mhist = << [op |-> "New", i |-> 1, mem |-> << x >>] >>
  /\ mact = [op |-> "New", i |-> 1]

(* a conversion returning a fresh buffer *)
Call(op, i, Pre(_), Fn(_)) ==
  /\ Len(mem) < MaxBufs /\ Pre(mem[i])
  /\ mem' = Append(mem, Fn(mem[i]))
  /\ mact' = [op |-> op, i |-> i] /\ mhist' = Append(mhist, Rec(op, i))

H2C(i) == Call("hexToCompact", i, IsHexKey, HexToCompact)
C2H(i) == Call("compactToHex", i, IsCompact, CompactToHex)

(* hexToCompactInPlace(mem[i]): the caller continues with the returned slice *)
InPlace(i) ==
  /\ IsHexKey(mem[i]) /\ Len(mem[i]) >= 1
  /\ mem' = [mem EXCEPT ![i] = InPlaceFn(mem[i])]
  /\ mact' = [op |-> "hexToCompactInPlace", i |-> i] /\ mhist' = Append(mhist, Rec("hexToCompactInPlace", i))

(* the caller overwrites a buffer it owns (same length, every byte changed) ... *)
Scribble(i) ==
  /\ Len(mem[i]) >= 1
  /\ mem' = [mem EXCEPT ![i] = [j \in 1..Len(mem[i]) |-> IF mem[i][j] = 1 THEN 15 ELSE 1]]
  /\ mact' = [op |-> "Scribble", i |-> i] /\ mhist' = Append(mhist, Rec("Scribble", i))
(* ... or appends to it (b = append(b, v)) *)
Push(i, v) ==
  /\ Len(mem[i]) <= MemLen + 1
  /\ mem' = [mem EXCEPT ![i] = Append(mem[i], v)]
  /\ mact' = [op |-> "Push", i |-> i, v |-> v] /\ mhist' = Append(mhist, Rec("Push", i))

MNext ==
  /\ Len(mhist) < MemDepth + 1
  /\ UNCHANGED vars
  /\ \E i \in 1..Len(mem) : H2C(i) \/ C2H(i) \/ InPlace(i) \/ Scribble(i) \/ Push(i, 1) \/ Push(i, Term)

MSpec == MInit /\ [][MNext]_<< vars, mvars >>

---------------------------------------------------------------------------
(* no action changes a buffer other than the one it is applied to; results are new buffers *)
NoForeignWrites ==
  [][ \A j \in 1..Len(mem) :
        mem'[j] # mem[j] => mact'.i = j /\ mact'.op \in {"hexToCompactInPlace", "Scribble", "Push"} ]_<< vars, mvars >>

(* history independence: the buffer a call just returned is the specification function of the *)
(* argument's content, whatever was done before                                                *)
ResultIsFunction ==
  LET k == Len(mem) IN
  /\ mact.op = "hexToCompact" => mem[k] = HexToCompact(mem[mact.i])
  /\ mact.op = "compactToHex" => mem[k] = CompactToHex(mem[mact.i])

EmitMem == IF Len(mhist) = MemDepth + 1 THEN PrintT(<< "MBT", ToJson(mhist) >>) ELSE TRUE
=============================================================================
