SPECIFICATION MCSpec
CONSTANTS MaxLen = 4
          FillBelow = 3
INVARIANTS Canonical Agreement Helpers Emit
CHECK_DEADLOCK FALSE
