------------------------------- MODULE MCABI -------------------------------
(* Model-checking wrapper of ABI.  Two-level state graph so that TLC workers share the    *)
(* work: one root state per argument list, its successors are the cases:                  *)
(*   pack   a sample value; laws: Dec(Enc(v)) = v, alignment, trailing bytes ignored      *)
(*   mut    the encoding of a sample value with one word replaced                          *)
(*   cut    ... truncated / extended                                                       *)
(*   str    an arbitrary short word string                                                 *)
(* Every case is printed (CASE) with the bytes and the verdict/value the specification     *)
(* demands, for replay on accounts/abi (R).                                                *)
EXTENDS ABI, Json

CONSTANTS Level        \* "quick" | "thorough"

VARIABLE c
vars == << c >>

(* ------------------------------ type universe -------------------------------------- *)
LeavesQuick == { UintT(8), UintT(64), UintT(256), UintT(24), IntT(8), IntT(40), IntT(256), BoolT, AddressT, BytesNT(1), BytesNT(32), BytesT, StringT }
LeavesMore  == { UintT(16), UintT(32), UintT(248), IntT(16), IntT(32), IntT(64), IntT(248), BytesNT(4), BytesNT(31) }
Leaves == IF Level = "quick" THEN LeavesQuick ELSE LeavesQuick \cup LeavesMore
Nest0  == IF Level = "quick" THEN { UintT(256), IntT(8), BytesT } ELSE { UintT(256), IntT(8), BytesT, AddressT, StringT }

D1(X) == { ArrayT(x, 2) : x \in X } \cup { SliceT(x) : x \in X } \cup { TupleT(<< x, y >>) : x \in X, y \in X }
Nest1 == Nest0 \cup D1(Nest0)
Types == Leaves \cup D1(Leaves) \cup D1(Nest1)
         \cup { ArrayT(x, 1) : x \in Nest0 } \cup { ArrayT(x, 3) : x \in Nest0 } \cup { TupleT(<< x >>) : x \in Nest0 }
         \cup { TupleT(<< x, y, z >>) : x \in {UintT(256), BytesT}, y \in {UintT(256), BytesT}, z \in {UintT(256), BytesT} }

(* nested static aggregates followed by a sibling (the decoder has to skip their inline words) *)
S2 == ArrayT(ArrayT(UintT(256), 2), 2)
ST == ArrayT(TupleT(<< UintT(256), IntT(8) >>), 2)
DeepStatic == { TupleT(<< S2, UintT(256) >>), TupleT(<< ST, UintT(256) >>), TupleT(<< TupleT(<< S2 >>), BytesT >>),
                TupleT(<< UintT(8), S2, BytesT >>), ArrayT(S2, 2), SliceT(TupleT(<< S2, BoolT >>)),
                TupleT(<< TupleT(<< UintT(256), TupleT(<< IntT(8), UintT(256) >>) >>), BytesT >>) }
DeepLists == { << T >> : T \in DeepStatic } \cup { << S2, UintT(256) >>, << ST, BytesT >>, << TupleT(<< S2, UintT(256) >>), UintT(256) >>,
               << TupleT(<< UintT(256), IntT(8) >>), S2, BytesT >> }

(* argument lists: every type alone; nested ones also next to a static and a dynamic sibling *)
ArgLists == { << T >> : T \in Types }
            \cup { << T, UintT(256) >> : T \in Nest1 } \cup { << BytesT, T >> : T \in Nest1 }
            \cup DeepLists

(* argument lists whose encodings get mutated *)
RECURSIVE Depth(_)
RECURSIVE MaxDepth(_, _)
MaxDepth(ts, i) == IF i > Len(ts) THEN 0 ELSE LET d == Depth(ts[i])  r == MaxDepth(ts, i + 1) IN IF d > r THEN d ELSE r
Depth(T) == IF Len(T.sub) = 0 THEN 0 ELSE 1 + MaxDepth(T.sub, 1)
QuickNest1 == {UintT(256), IntT(8), BytesT} \cup D1({UintT(256), IntT(8), BytesT})
Shallow(a) == \A i \in DOMAIN a : Depth(a[i]) <= 1
MutLists == IF Level = "quick"
            THEN { a \in ArgLists : (\E i \in DOMAIN a : IsDynamic(a[i])) /\ Shallow(a) }
                 \cup { << ArrayT(SliceT(BytesT), 2) >>, << SliceT(ArrayT(BytesT, 2)) >>, << TupleT(<< SliceT(UintT(256)), BytesT >>) >>,
                        << SliceT(TupleT(<< UintT(256), BytesT >>)) >>, << ArrayT(TupleT(<< BytesT, IntT(8) >>), 2) >>,
                        << TupleT(<< ArrayT(BytesT, 2), UintT(256) >>) >>, << SliceT(SliceT(UintT(256))) >> }
                 \cup { << T >> : T \in LeavesQuick } \cup DeepLists
            ELSE { a \in ArgLists : Shallow(a) } \cup { << T >> : T \in D1(QuickNest1) }
                 \cup { << T, UintT(256) >> : T \in QuickNest1 } \cup { << BytesT, T >> : T \in QuickNest1 } \cup DeepLists
(* sample values whose encodings are mutated: both non-empty ones for shallow lists, the richest one otherwise *)
MutVariants(a) == IF Level = "quick" \/ Shallow(a) THEN 2..3 ELSE {3}
StrLists == { << BytesT >>, << SliceT(UintT(256)) >>, << ArrayT(BytesT, 2) >>, << SliceT(BytesT) >>, << TupleT(<< BytesT, UintT(256) >>) >>,
              << TupleT(<< UintT(256), SliceT(IntT(8)) >>) >>, << BytesT, UintT(8) >>, << StringT, BytesT >>, << ArrayT(SliceT(UintT(256)), 2) >>,
              << SliceT(SliceT(BoolT)) >> }

(* ------------------------------ sample values -------------------------------------- *)
Next3(i) == (i % 3) + 1
RECURSIVE Val(_, _)
Val(T, i) ==
  CASE T.k = "uint"    -> IF i = 1 THEN Rep(0, 32) ELSE IF i = 2 THEN NatWord(42) ELSE Rep(0, 32 - T.n \div 8) \o Rep(255, T.n \div 8)
    [] T.k = "int"     -> IF i = 1 THEN Rep(255, 32) ELSE IF i = 2 THEN NatWord(42)
                          ELSE Rep(255, 32 - T.n \div 8) \o << 128 >> \o Rep(0, T.n \div 8 - 1)
    [] T.k = "bool"    -> IF i = 1 THEN NatWord(0) ELSE NatWord(1)
    [] T.k = "address" -> Rep(0, 12) \o Rep(IF i = 1 THEN 161 ELSE IF i = 2 THEN 0 ELSE 255, 20)
    [] T.k = "bytesN"  -> Rep(176 + i, T.n) \o Rep(0, 32 - T.n)
    [] T.k = "bytes"   -> IF i = 1 THEN << >> ELSE IF i = 2 THEN << 178 >> ELSE Rep(179, 33)
    [] T.k = "string"  -> IF i = 1 THEN << >> ELSE IF i = 2 THEN << 97 >> ELSE Rep(99, 32)
    [] T.k = "array"   -> [j \in 1..T.n |-> Val(T.sub[1], ((i + j - 2) % 3) + 1)]
    [] T.k = "slice"   -> [j \in 1..(i - 1) |-> Val(T.sub[1], ((i + j) % 3) + 1)]
    [] T.k = "tuple"   -> [j \in 1..Len(T.sub) |-> Val(T.sub[j], ((i + j - 2) % 3) + 1)]
Vals(Ts, i) == [j \in 1..Len(Ts) |-> Val(Ts[j], ((i + j - 2) % 3) + 1)]

(* ------------------------------ mutations ------------------------------------------ *)
SetAt(w, i, b) == [w EXCEPT ![i] = b]
Repl(orig, L) ==
  << NatWord(0), NatWord(1), NatWord(31), NatWord(32), NatWord(33), NatWord(64), NatWord(96),
     NatWord(IF L >= 32 THEN L - 32 ELSE 0), NatWord(L), NatWord(L + 1), Rep(255, 32),
     SetAt(orig, 24, 1),        \* + 2^64 for a small word
     SetAt(orig, 1, 1),         \* dirty top byte
     SetAt(orig, 32, (orig[32] + 1) % 256) >>
NRepl == 14
WordAt(m, p) == SubSeq(m, 32 * p - 31, 32 * p)
PutWord(m, p, w) == SubSeq(m, 1, 32 * p - 32) \o w \o SubSeq(m, 32 * p + 1, Len(m))
Cuts(L) == {0, 1, 31, 32, L - 33, L - 32, L - 1} \cap (0..L)
Alphabet == << NatWord(0), NatWord(1), NatWord(32), NatWord(64), NatWord(96), Rep(255, 32) >>
MaxStr == IF Level = "quick" THEN 3 ELSE 4
RECURSIVE Flatten(_)
Flatten(ws) == IF ws = << >> THEN << >> ELSE Alphabet[Head(ws)] \o Flatten(Tail(ws))

(* ------------------------------ state graph ---------------------------------------- *)
Root(a) == [ph |-> "root", args |-> a, mem |-> << >>, vals |-> << >>, note |-> "root", p |-> 0, k |-> 0]
Case(ph, a, m, vs, note, p, k) == [ph |-> ph, args |-> a, mem |-> m, vals |-> vs, note |-> note, p |-> p, k |-> k]

Init == \E a \in ArgLists : c = Root(a)

Next ==
  /\ c.ph = "root"
  /\ LET a == c.args IN
     \/ \E i \in 1..3 : c' = Case("pack", a, EncArgs(a, Vals(a, i)), Vals(a, i), ToString(i), 0, 0)
     \/ /\ a \in MutLists
        /\ \E i \in MutVariants(a) :
             LET m == EncArgs(a, Vals(a, i))  L == Len(m) IN
             \/ \E p \in 1..(L \div 32), k \in 1..NRepl :
                  /\ Repl(WordAt(m, p), L)[k] # WordAt(m, p)
                  /\ c' = Case("mut", a, PutWord(m, p, Repl(WordAt(m, p), L)[k]), << >>, ToString(i), p, k)
             \/ \E n \in Cuts(L) : c' = Case("cut", a, SubSeq(m, 1, n), << >>, ToString(<< i, n >>), 0, 0)
             \/ c' = Case("cut", a, m \o << 1 >>, << >>, "ext1", 0, 0)
             \/ c' = Case("cut", a, m \o Rep(255, 32), << >>, "ext32", 0, 0)
     \/ /\ a \in StrLists
        /\ \E n \in 1..MaxStr : \E ws \in [1..n -> 1..Len(Alphabet)] :
              c' = Case("str", a, Flatten(ws), << >>, ToString(ws), 0, 0)

Spec == Init /\ [][Next]_vars

(* ------------------------------ laws ------------------------------------------------ *)
IsCase == c.ph # "root"
R == DecArgs(c.args, c.mem)

(* decoding the encoding gives the value back; encodings are word aligned; trailing bytes do not matter *)
RoundTrip ==
  c.ph = "pack" =>
    /\ R.ok /\ R.val = c.vals
    /\ Len(c.mem) % 32 = 0 /\ Len(c.mem) >= SumSizes(c.args, 1)
    /\ Verdict(c.args, c.mem) = "accept"
    /\ DecArgs(c.args, c.mem \o Rep(255, 32)).val = c.vals
(* whatever decodes re-encodes to a canonical form that decodes to the same value *)
Canonical ==
  (IsCase /\ R.ok) =>
    LET e == EncArgs(c.args, R.val) IN
    /\ DecArgs(c.args, e) = R
    /\ Verdict(c.args, e) = "accept"
    /\ Len(e) % 32 = 0
(* a proper prefix of an encoding that lost a needed byte is rejected *)
TruncationRejected ==
  (c.ph = "cut" /\ Len(c.mem) < SumSizes(c.args, 1)) => ~R.ok

(* ------------------------------ output ---------------------------------------------- *)
RECURSIVE Compact(_)
Compact(m) ==
  IF Len(m) = 0 THEN << >>
  ELSE IF Len(m) < 32 THEN << m >>
  ELSE (IF IsSmall(m, 0) THEN << Num(m, 0) >> ELSE << SubSeq(m, 1, 32) >>) \o Compact(SubSeq(m, 33, Len(m)))
RECURSIVE CompactVal(_, _)
CompactVal(T, v) ==
  CASE T.k \in {"bytes", "string"} -> v
    [] T.k \in {"array", "slice"}  -> [j \in 1..Len(v) |-> CompactVal(T.sub[1], v[j])]
    [] T.k = "tuple"               -> [j \in 1..Len(v) |-> CompactVal(T.sub[j], v[j])]
    [] OTHER                       -> Compact(v)[1]
CompactVals(Ts, vs) == [j \in 1..Len(vs) |-> CompactVal(Ts[j], vs[j])]

Emit ==
  IsCase => PrintT(<< "CASE", ToJson([ph |-> c.ph, note |-> c.note, p |-> c.p, k |-> c.k, args |-> c.args, len |-> Len(c.mem), mem |-> Compact(c.mem),
                                      verdict |-> Verdict(c.args, c.mem),
                                      val |-> IF R.ok THEN CompactVals(c.args, R.val) ELSE << >>]) >>)
=============================================================================
