------------------------------ MODULE ABITrace ------------------------------
(* Trace validation for C51: every line is one call of abi.Arguments.Pack or Unpack on a   *)
(* random nested argument list (types, value in the specification's form, bytes).  TLC      *)
(* recomputes Enc / Dec of ABI.tla for each event:                                          *)
(*   pack    the bytes produced are exactly EncArgs(args, vals)                             *)
(*   unpack  never panics; rejected when the specification's verdict is "reject", accepted  *)
(*           when it is "accept", and whatever is accepted is the pointer-following value    *)
(*           and re-encodes to something that decodes to the same value                      *)
EXTENDS ABI, Json, IOUtils

Trace == ndJsonDeserialize(IOEnv.TRACE)

VARIABLE l
Ev == Trace[l]
Step(P) == l <= Len(Trace) /\ P /\ l' = l + 1

TPack == Step(/\ Ev.op = "pack" /\ Ev.ok
              /\ EncArgs(Ev.args, Ev.vals) = Ev.mem
              /\ DecArgs(Ev.args, Ev.mem) = Ok(Ev.vals))

UnpackOK(args, m, ok, vals) ==
  LET r == DecArgs(args, m)  v == Verdict(args, m) IN
  /\ (v = "reject" => ~ok)
  /\ (v = "accept" => ok)
  /\ (ok => vals = r.val)

TUnpack == Step(/\ Ev.op = "unpack"
                /\ ~Ev.panicked /\ ~Ev.shapeErr /\ Ev.reencodes
                /\ UnpackOK(Ev.args, Ev.mem, Ev.ok, Ev.vals))

TraceInit == l = 1
TraceNext == TPack \/ TUnpack
TraceSpec == TraceInit /\ [][TraceNext]_l
TraceAccepted == TLCGet("stats").diameter - 1 = Len(Trace)
=============================================================================
