------------------------------ MODULE ABITrace ------------------------------
(* Trace validation for C51: every line is one call of abi.Arguments.Pack or Unpack on a   *)
(* random nested argument list (types, value in the specification's form, bytes).  TLC      *)
(* recomputes Enc / Dec of ABI.tla for each event:                                          *)
(*   pack    the bytes produced are exactly EncArgs(args, vals)                             *)
(*   unpack  never panics; rejected when the specification's verdict is "reject", accepted  *)
(*           when it is "accept", and whatever is accepted is the pointer-following value    *)
(*           and re-encodes to something that decodes to the same value                      *)
EXTENDS ABI, Json, IOUtils

Trace == ndJsonDeserialize(IOEnv.TRACE)

VARIABLE l
Ev == Trace[l]
Step(P) == l <= Len(Trace) /\ P /\ l' = l + 1

TPack == Step(/\ Ev.op = "pack" /\ Ev.ok
              /\ EncArgs(Ev.args, Ev.vals) = Ev.mem
              /\ DecArgs(Ev.args, Ev.mem) = Ok(Ev.vals))

UnpackOK(args, m, ok, vals) ==
  LET r == DecArgs(args, m)  v == Verdict(args, m) IN
  /\ (v = "reject" => ~ok)
  /\ (v = "accept" => ok)
  /\ (ok => vals = r.val)

TUnpack == Step(/\ Ev.op = "unpack"
                /\ ~Ev.panicked /\ ~Ev.shapeErr /\ Ev.reencodes
                /\ UnpackOK(Ev.args, Ev.mem, Ev.ok, Ev.vals))

(* ---- recognised deviation (see spec/codec/NOTES.md), enabled only with ADMIT_F1 = "1" --- *)
(* C51-F1 (repair pending in /repo): for T[k] with dynamic T the decoder reads only the low 8 *)
(* bytes of the offset word.  Admitted fingerprint: the argument list contains such an      *)
(* array, the specification rejects, and clearing the upper 24 bytes of one word yields an  *)
(* input that decodes to exactly the accepted value.                                        *)
RECURSIVE HasArrDyn(_)
HasArrDyn(T) == (T.k = "array" /\ IsDynamic(T.sub[1])) \/ \E i \in DOMAIN T.sub : HasArrDyn(T.sub[i])
ClearHigh(m, p) == [i \in 1..Len(m) |-> IF i > 32 * p - 32 /\ i <= 32 * p - 8 THEN 0 ELSE m[i]]
TPendingF1 == IOEnv.ADMIT_F1 = "1" /\
              Step(/\ Ev.op = "unpack" /\ Ev.ok /\ ~Ev.panicked /\ ~Ev.shapeErr /\ Ev.reencodes
                   /\ \E j \in DOMAIN Ev.args : HasArrDyn(Ev.args[j])
                   /\ Verdict(Ev.args, Ev.mem) = "reject"
                   /\ \E p \in 1..(Len(Ev.mem) \div 32) :
                        /\ \E i \in (32 * p - 31)..(32 * p - 8) : Ev.mem[i] # 0
                        /\ DecArgs(Ev.args, ClearHigh(Ev.mem, p)) = Ok(Ev.vals))

TraceInit == l = 1
TraceNext == TPack \/ TUnpack \/ TPendingF1
TraceSpec == TraceInit /\ [][TraceNext]_l
TraceAccepted == TLCGet("stats").diameter - 1 = Len(Trace)
=============================================================================
