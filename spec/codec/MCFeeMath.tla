----------------------------- MODULE MCFeeMath -----------------------------
(* Model-checking wrapper of FeeMath: TLC enumerates a bounded input grid (one initial   *)
(* state per case), checks the bound lemmas of property C35 on the formulas themselves   *)
(* and - with invariant Emit - prints each case with the value the specification         *)
(* demands, which harness/cmd/c35 replays on the Go functions (R).                       *)
EXTENDS FeeMath, FiniteSets, Json

CONSTANTS
  Limits,        \* parent gas limits
  BaseFees,      \* parent base fees
  UsedSteps,     \* K: used gas also sampled at limit*k/K, k \in 0..K
  Fracs,         \* blob update fractions
  Scheds,        \* subset of 1..Len(SchedTable): which (target, max) pairs
  Excesses,      \* parent excess blob gas values
  ExBaseFees,    \* parent base fees for the EIP-7918 comparison
  DataSizes,     \* calldata byte counts
  ListSizes      \* access-list / authorization-list entry counts

(* dense small grids (cfg: Limits <- SmallLimits ...): every rounding corner of the      *)
(* formulas shows up at small magnitudes                                                 *)
SmallLimits   == 2..48
SmallBaseFees == 0..72
SmallFracs    == 1..24
SmallExcesses == 0..160
SmallData     == 0..70

VARIABLE c       \* the case: a record with field fn and the inputs

(* (target, max) pairs: Cancun, Prague, BPO1, BPO2 of mainnet and small synthetic ones   *)
SchedTable == << [target |-> 3, max |-> 6], [target |-> 6, max |-> 9], [target |-> 10, max |-> 15],
                 [target |-> 14, max |-> 21], [target |-> 1, max |-> 2], [target |-> 0, max |-> 1],
                 [target |-> 2, max |-> 2], [target |-> 21, max |-> 32] >>

UsedOf(limit) ==
  LET t == GasTarget(limit) IN
  ({0, 1, t - 1, t, t + 1, limit - 1, limit} \cup {(limit * k) \div UsedSteps : k \in 0..UsedSteps}) \cap (0..limit)

HeaderLimitsOf(p) ==
  LET d == p \div GAS_LIMIT_ADJUSTMENT_FACTOR IN
  {p - d - 1, p - d, p - d + 1, p - 1, p, p + 1, p + d - 1, p + d, p + d + 1, 4999, 5000, 5001} \cap (0..MaxInt)

BlobUsedOf(s) == {k * GAS_PER_BLOB : k \in {0, 1, s.target - 1, s.target, s.target + 1, s.max - 1, s.max} \cap (0..s.max)}

InitBaseFee ==
  \E ld \in BOOLEAN, pl \in Limits, pb \in BaseFees : \E pu \in UsedOf(pl) :
     /\ SafeBaseFee(pl, pu, pb)
     /\ c = [fn |-> "basefee", london |-> ld, pLimit |-> pl, pUsed |-> pu, pBase |-> pb]
InitGasLimit ==
  \E ld \in BOOLEAN, pl \in Limits : \E hl \in HeaderLimitsOf(AdjustedParentLimit(ld, pl)) :
     c = [fn |-> "gaslimit", london |-> ld, pLimit |-> pl, hLimit |-> hl]
InitBlobFee ==
  \E f \in Fracs, e \in Excesses :
     /\ SafeFakeExp(1, e, f)
     /\ c = [fn |-> "blobfee", frac |-> f, excess |-> e]
InitExcess ==
  \E o \in BOOLEAN, i \in Scheds, f \in Fracs, e \in Excesses, b \in ExBaseFees :
     LET s == [target |-> SchedTable[i].target, max |-> SchedTable[i].max, frac |-> f] IN
     \E u \in BlobUsedOf(s) :
        /\ SafeExcess(o, s, e, u, b)
        /\ c = [fn |-> "excess", osaka |-> o, sched |-> s, pExcess |-> e, pUsed |-> u, pBase |-> b]
InitTx ==
  \E fk \in Forks, cr \in BOOLEAN, sf \in BOOLEAN, vl \in BOOLEAN, d \in DataSizes, a \in ListSizes, k \in ListSizes, au \in ListSizes :
     \E nz \in {0, 1, d \div 2, d} \cap (0..d) :
        LET tx == [create |-> cr, self |-> sf, value |-> vl, nz |-> nz, z |-> d - nz, addrs |-> a, keys |-> k, auths |-> au] IN
        /\ TxWellFormed(fk, tx) /\ SafeTx(tx)
        /\ c = [fn |-> "intrinsic", fork |-> fk, tx |-> tx]

Init == InitBaseFee \/ InitGasLimit \/ InitBlobFee \/ InitExcess \/ InitTx
Next == UNCHANGED c
Spec == Init /\ [][Next]_c

(* what the specification demands for a case *)
Out(x) ==
  CASE x.fn = "basefee"   -> [v |-> ExpectedBaseFee(x.london, x.pLimit, x.pUsed, x.pBase)]
    [] x.fn = "gaslimit"  -> [ok |-> GasLimitOK(AdjustedParentLimit(x.london, x.pLimit), x.hLimit)]
    [] x.fn = "blobfee"   -> [v |-> BlobBaseFee(x.excess, x.frac)]
    [] x.fn = "excess"    -> [v |-> CalcExcessBlobGas(x.osaka, x.sched, x.pExcess, x.pUsed, x.pBase)]
    [] x.fn = "intrinsic" -> [v |-> IntrinsicGas(x.fork, x.tx), floor |-> FloorDataGas(x.fork, x.tx)]

Emit == PrintT(<<"CASE", ToJson([in |-> c, out |-> Out(c)])>>)

(* ------------------------------ lemmas (C35 "including their bounds") --------------- *)
IsBF == c.fn = "basefee" /\ c.london /\ c.pUsed <= c.pLimit
E(u) == ExpectedBaseFee(TRUE, c.pLimit, u, c.pBase)

(* the base fee moves by at most one eighth (at least 1 when it must rise); for an odd   *)
(* gas limit the block can be one gas above twice the target, hence the second form      *)
BaseFeeMaxChange ==
  IsBF => LET t == GasTarget(c.pLimit) IN
          /\ (c.pLimit % 2 = 0 => Abs(E(c.pUsed) - c.pBase) <= Max(c.pBase \div 8, 1))
          /\ Abs(E(c.pUsed) - c.pBase) <= Max(((c.pBase * (c.pLimit - t)) \div t) \div 8, 1)
          /\ E(c.pUsed) >= c.pBase - c.pBase \div 8
BaseFeeDirection ==
  IsBF => LET t == GasTarget(c.pLimit) IN
          /\ (c.pUsed = t => E(c.pUsed) = c.pBase)
          /\ (c.pUsed > t => E(c.pUsed) > c.pBase)
          /\ (c.pUsed < t => E(c.pUsed) <= c.pBase)
BaseFeeNonNegative == IsBF => E(c.pUsed) >= 0
BaseFeeMonotone ==
  (IsBF /\ c.pUsed < c.pLimit /\ SafeBaseFee(c.pLimit, c.pUsed + 1, c.pBase)) => E(c.pUsed + 1) >= E(c.pUsed)
ForkBlockBaseFee ==
  (c.fn = "basefee" /\ ~c.london) => ExpectedBaseFee(FALSE, c.pLimit, c.pUsed, c.pBase) = INITIAL_BASE_FEE

(* the admissible gas limits form the open interval (p - p/1024, p + p/1024) above 5000; *)
(* keeping the limit is always admissible for a valid parent                             *)
GasLimitInterval ==
  c.fn = "gaslimit" =>
    LET p == AdjustedParentLimit(c.london, c.pLimit) IN
    /\ GasLimitOK(p, c.hLimit) <=> (Abs(c.hLimit - p) < p \div 1024 /\ c.hLimit >= 5000)
    /\ (p >= 5000 => GasLimitOK(p, p))
    /\ (GasLimitOK(p, c.hLimit) => 1024 * Abs(c.hLimit - p) < p)

FakeExpLaws ==
  c.fn = "blobfee" =>
    /\ BlobBaseFee(c.excess, c.frac) >= MIN_BASE_FEE_PER_BLOB_GAS
    /\ BlobBaseFee(0, c.frac) = MIN_BASE_FEE_PER_BLOB_GAS
    /\ (c.excess > 0 => BlobBaseFee(c.excess - 1, c.frac) <= BlobBaseFee(c.excess, c.frac))
    /\ (c.excess < c.frac => BlobBaseFee(c.excess, c.frac) <= 2)           \* e^x < 3 for x < 1
    /\ (c.excess >= c.frac => BlobBaseFee(c.excess, c.frac) >= 2)          \* e^x >= 2 for x >= 1

ExcessLaws ==
  c.fn = "excess" =>
    LET r  == CalcExcessBlobGas(c.osaka, c.sched, c.pExcess, c.pUsed, c.pBase)
        r0 == CalcExcessBlobGas(FALSE, c.sched, c.pExcess, c.pUsed, c.pBase)
        tg == c.sched.target * GAS_PER_BLOB IN
    /\ r >= 0 /\ r <= c.pExcess + c.pUsed
    /\ (c.pExcess + c.pUsed < tg => r = 0)
    /\ (c.pExcess + c.pUsed >= tg => r0 = c.pExcess + c.pUsed - tg)
    /\ (c.pUsed = tg => r0 = c.pExcess)                                   \* at target usage the excess is steady
    /\ r >= r0                                                            \* EIP-7918 only ever keeps the excess higher
    /\ (r # r0 => r >= c.pExcess /\ c.osaka)

IsTx == c.fn = "intrinsic"
IntrinsicLaws ==
  IsTx =>
    LET g == IntrinsicGas(c.fork, c.tx)  fl == FloorDataGas(c.fork, c.tx) IN
    /\ (c.fork < Amsterdam => g >= TX_BASE_COST /\ fl >= TX_BASE_COST)
    /\ (c.fork >= Amsterdam => g >= BaseCost2780(c.tx) /\ fl >= BaseCost2780(c.tx))
    \* EIP-7623: the standard calldata price is STANDARD_TOKEN_COST per token
    /\ ((c.fork >= Istanbul /\ ~c.tx.create) =>
           DataCost(c.fork, c.tx) = STANDARD_TOKEN_COST * (c.tx.z + c.tx.nz * TOKENS_PER_NONZERO_BYTE))
    \* a creation is never cheaper than the same payload sent as a call (Homestead on)
    /\ ((c.tx.create /\ c.fork >= Homestead) => g >= IntrinsicGas(c.fork, [c.tx EXCEPT !.create = FALSE]))
    \* replacing a zero byte by a non-zero byte never makes the transaction cheaper
    /\ (c.tx.z > 0 => IntrinsicGas(c.fork, [c.tx EXCEPT !.z = @ - 1, !.nz = @ + 1]) >= g)
    /\ (c.tx.z > 0 => FloorDataGas(c.fork, [c.tx EXCEPT !.z = @ - 1, !.nz = @ + 1]) >= fl)
=============================================================================
