---------------------------- MODULE FeeMathTrace ----------------------------
(* Trace validation for C35: every line of the ndjson trace is one call of a real fee /  *)
(* gas function of go-ethereum (inputs and result as observed); the step is enabled only *)
(* when the result equals what FeeMath (the transcribed EIP formulas) demands.  The spec  *)
(* is stateless apart from the trace cursor, so a rejected trace stops exactly at the     *)
(* first call whose result the specification does not allow.                             *)
EXTENDS FeeMath, Json, IOUtils

Trace == ndJsonDeserialize(IOEnv.TRACE)

VARIABLE l
Ev == Trace[l]

Step(A) == l <= Len(Trace) /\ A /\ l' = l + 1

(* an input outside the domain where TLC arithmetic is exact is a harness bug, never a verdict *)
InDomain(ok) == Assert(ok, <<"c35: event outside the TLC-safe input domain", l>>)

(* ---- blob schedule selection (EIP-7840/7892): the entry of the latest activated fork  *)
(* that has one.  A slot is <<activationTime | -1, target | -1, max, updateFraction>>.    *)
SlotActive(s, time) == s[1] >= 0 /\ s[1] <= time /\ s[2] >= 0
ActiveIdx(slots, time) ==
  LET idx == {i \in 1..Len(slots) : SlotActive(slots[i], time)} IN
  IF idx = {} THEN 0 ELSE CHOOSE i \in idx : \A j \in idx : j <= i
ActiveSched(slots, time) ==
  LET s == slots[ActiveIdx(slots, time)] IN [target |-> s[2], max |-> s[3], frac |-> s[4]]
IsOsaka(e) == e.osakaAt >= 0 /\ e.osakaAt <= e.time

(* mainnet schedule parameters as published: EIP-4844, EIP-7691, EIP-7892 BPO1/BPO2       *)
Published == [cancun |-> <<3, 6, 3338477>>, prague |-> <<6, 9, 5007716>>,
              bpo1 |-> <<10, 15, 8346193>>, bpo2 |-> <<14, 21, 11684671>>]

TxOf(e) == [create |-> e.create, self |-> e.self, value |-> e.value, nz |-> e.nz, z |-> e.z,
            addrs |-> e.addrs, keys |-> e.keys, auths |-> e.auths]

TBaseFee == Step(/\ Ev.fn = "basefee"
                 /\ InDomain(SafeBaseFee(Ev.pLimit, Ev.pUsed, Ev.pBase))
                 /\ Ev.out = ExpectedBaseFee(Ev.london, Ev.pLimit, Ev.pUsed, Ev.pBase))
TVerify1559 == Step(/\ Ev.fn = "verify1559"
                    /\ InDomain(SafeBaseFee(Ev.pLimit, Ev.pUsed, Ev.pBase))
                    /\ Ev.ok = Valid1559Header(Ev.london, Ev.pLimit, Ev.pUsed, Ev.pBase, Ev.hLimit, Ev.hBase))
TGasLimit == Step(/\ Ev.fn = "gaslimit"
                  /\ Ev.ok = GasLimitOK(Ev.pLimit, Ev.hLimit))
TBlobFee == Step(/\ Ev.fn = "blobfee"
                 /\ InDomain(ActiveIdx(Ev.slots, Ev.time) > 0)
                 /\ LET s == ActiveSched(Ev.slots, Ev.time) IN
                    /\ InDomain(SafeFakeExp(1, Ev.excess, s.frac))
                    /\ Ev.out = BlobBaseFee(Ev.excess, s.frac))
TExcess == Step(/\ Ev.fn = "excess"
                /\ InDomain(ActiveIdx(Ev.slots, Ev.time) > 0)
                /\ LET s  == ActiveSched(Ev.slots, Ev.time)
                       pe == IF Ev.hasBlob THEN Ev.pExcess ELSE 0
                       pu == IF Ev.hasBlob THEN Ev.pUsed ELSE 0 IN
                   /\ InDomain(SafeExcess(IsOsaka(Ev), s, pe, pu, Ev.pBase))
                   /\ Ev.out = CalcExcessBlobGas(IsOsaka(Ev), s, pe, pu, Ev.pBase))
TVerify4844 == Step(/\ Ev.fn = "verify4844"
                    /\ InDomain(ActiveIdx(Ev.slots, Ev.time) > 0)
                    /\ LET s  == ActiveSched(Ev.slots, Ev.time)
                           pe == IF Ev.hasBlob THEN Ev.pExcess ELSE 0
                           pu == IF Ev.hasBlob THEN Ev.pUsed ELSE 0 IN
                       /\ InDomain(SafeExcess(IsOsaka(Ev), s, pe, pu, Ev.pBase))
                       /\ Ev.ok = ValidBlobHeader(IsOsaka(Ev), s, pe, pu, Ev.pBase, Ev.hExcess, Ev.hUsed))
(* accessors of the active schedule; without an active schedule they report 0; the "latest"  *)
(* maximum is the one in force once every scheduled fork has activated                       *)
Horizon == 2000000000
TBlobParams == Step(/\ Ev.fn = "blobparams"
                    /\ LET i == ActiveIdx(Ev.slots, Ev.time)  j == ActiveIdx(Ev.slots, Horizon) IN
                       /\ Ev.max    = IF i = 0 THEN 0 ELSE ActiveSched(Ev.slots, Ev.time).max
                       /\ Ev.target = IF i = 0 THEN 0 ELSE ActiveSched(Ev.slots, Ev.time).target
                       /\ Ev.maxGas = IF i = 0 THEN 0 ELSE ActiveSched(Ev.slots, Ev.time).max * GAS_PER_BLOB
                       /\ Ev.latestMax = IF j = 0 THEN 0 ELSE ActiveSched(Ev.slots, Horizon).max)
TIntrinsic == Step(/\ Ev.fn = "intrinsic"
                   /\ InDomain(TxWellFormed(Ev.fork, TxOf(Ev)) /\ SafeTx(TxOf(Ev)))
                   /\ Ev.out = IntrinsicGas(Ev.fork, TxOf(Ev)))
TFloor == Step(/\ Ev.fn = "floor"
               /\ InDomain(Ev.fork >= Prague)
               /\ InDomain(TxWellFormed(Ev.fork, TxOf(Ev)) /\ SafeTx(TxOf(Ev)))
               /\ Ev.out = FloorDataGas(Ev.fork, TxOf(Ev)))
(* parameters shipped in params/ for a named fork equal the published ones *)
TParams == Step(/\ Ev.fn = "params"
                /\ Ev.fork \in DOMAIN Published
                /\ <<Ev.target, Ev.max, Ev.frac>> = Published[Ev.fork])
TConst == Step(/\ Ev.fn = "consts"
               /\ Ev.elasticity = ELASTICITY_MULTIPLIER /\ Ev.denominator = BASE_FEE_MAX_CHANGE_DENOMINATOR
               /\ Ev.initialBaseFee = INITIAL_BASE_FEE /\ Ev.boundDivisor = GAS_LIMIT_ADJUSTMENT_FACTOR
               /\ Ev.minGasLimit = GAS_LIMIT_MINIMUM /\ Ev.gasPerBlob = GAS_PER_BLOB
               /\ Ev.minBlobFee = MIN_BASE_FEE_PER_BLOB_GAS /\ Ev.blobBaseCost = BLOB_BASE_COST)

TraceInit == l = 1
TraceNext == TBaseFee \/ TVerify1559 \/ TGasLimit \/ TBlobFee \/ TBlobParams \/ TExcess \/ TVerify4844
             \/ TIntrinsic \/ TFloor \/ TParams \/ TConst
TraceSpec == TraceInit /\ [][TraceNext]_l

TraceAccepted == TLCGet("stats").diameter - 1 = Len(Trace)
=============================================================================
