SPECIFICATION MCSpec
CONSTANTS FirstSyms = {0, 1, 55, 56, 127, 128, 129, 130, 183, 184, 185, 191, 192, 193, 194, 247, 248, 249, 255}
          MaxLen = 3
          FillBelow = 3
INVARIANTS Canonical Agreement Helpers Emit
CHECK_DEADLOCK FALSE
