SPECIFICATION MCSpec
CONSTANTS MaxLen = 3
          FillBelow = 3
INVARIANTS Canonical Agreement Helpers Emit
CHECK_DEADLOCK FALSE
