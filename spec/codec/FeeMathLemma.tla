---------------------------- MODULE FeeMathLemma ----------------------------
(* Unbounded-integer obligations for C35 (Apalache, SMT integers; the formulas are those of    *)
(* FeeMath.tla, restated here with Apalache type annotations): the EIP-1559 update never *)
(* makes the base fee negative, moves it by at most one eighth (at least one upwards) for an  *)
(* even gas limit, and keeps the direction; the admissible gas limits are the open interval.  *)
EXTENDS Integers

VARIABLES
  \* @type: Int;
  pLimit,
  \* @type: Int;
  pUsed,
  \* @type: Int;
  pBase,
  \* @type: Int;
  hLimit

Max(a, b) == IF a > b THEN a ELSE b
Target == pLimit \div 2
Expected ==
  IF pUsed = Target THEN pBase
  ELSE IF pUsed > Target
       THEN pBase + Max(((pBase * (pUsed - Target)) \div Target) \div 8, 1)
       ELSE pBase - ((pBase * (Target - pUsed)) \div Target) \div 8

GasLimitOK == /\ hLimit < pLimit + pLimit \div 1024
              /\ hLimit > pLimit - pLimit \div 1024
              /\ hLimit >= 5000

IndInit == /\ pLimit \in Int /\ pUsed \in Int /\ pBase \in Int /\ hLimit \in Int
           /\ pLimit >= 5000 /\ pLimit % 2 = 0
           /\ pUsed >= 0 /\ pUsed <= pLimit
           /\ pBase >= 0
           /\ hLimit >= 0
Next == UNCHANGED <<pLimit, pUsed, pBase, hLimit>>

NonNegative == Expected >= 0
Direction == /\ (pUsed > Target => Expected > pBase)
             /\ (pUsed < Target => Expected <= pBase)
MaxChange == /\ Expected <= pBase + Max(pBase \div 8, 1)
             /\ Expected >= pBase - pBase \div 8
Interval == GasLimitOK => (1024 * (hLimit - pLimit) < pLimit /\ 1024 * (pLimit - hLimit) < pLimit)
Lemmas == Interval /\ NonNegative /\ Direction /\ MaxChange
=============================================================================
