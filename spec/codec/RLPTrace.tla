------------------------------ MODULE RLPTrace ------------------------------
(* Trace validation for RLP.tla (property C01).  Every line of the ndjson trace is one    *)
(* call made on package rlp with its observed result; it is accepted iff the result is    *)
(* what the specification's operators give for the logged input.  The trace spec has no   *)
(* state besides the position in the trace (the codec is a pure function).                *)
EXTENDS RLP, Json, IOUtils, TLC

Trace == ndJsonDeserialize(IOEnv.TRACE)

VARIABLE l
Ev == Trace[l]

Step(A) == l <= Len(Trace) /\ A /\ l' = l + 1

(* rejection: the implementation's reason class must be one the specification gives *)
Same(r, ok, cls) == r.ok = ok /\ (~r.ok => cls \in r.c)

(* value -> encoding: the value is well formed for its type and the bytes are Enc(value) *)
TEnc   == Step(Ev.op = "enc" /\ WF(Ev.T, Ev.val) /\ Enc(Ev.val) = Ev.enc)
(* bytes -> value: verdict, value and canonical re-encoding *)
TDec   == Step(Ev.op = "dec" /\ LET r == Top(Ev.T, Ev.in) IN
                /\ Same(r, Ev.ok, Ev.cls)
                /\ (r.ok => r.v = Ev.out /\ Ev.reenc = Ev.in /\ Enc(r.v) = Ev.in))
TFirst == Step(Ev.op = "first" /\ LET r == First(TAny, Ev.in) IN
                /\ Same(r, Ev.ok, Ev.cls)
                /\ (r.ok => r.v = Ev.out /\ r.n = Ev.n))
TSplit == Step(Ev.op = "split" /\ LET r == Split(Ev.in) IN
                /\ Same(r, Ev.ok, Ev.cls)
                /\ (r.ok => r.kind = Ev.kind /\ r.content = Ev.content /\ r.rest = Ev.rest))
TSUint == Step(Ev.op = "suint" /\ LET r == SplitUint64(Ev.in) IN
                /\ Same(r, Ev.ok, Ev.cls)
                /\ (r.ok => r.x = Ev.x /\ r.rest = Ev.rest))
TCount == Step(Ev.op = "count" /\ LET r == CountValues(Ev.in) IN
                /\ Same(r, Ev.ok, Ev.cls)
                /\ (r.ok => r.n = Ev.n))

TraceInit == l = 1
TraceNext == TEnc \/ TDec \/ TFirst \/ TSplit \/ TSUint \/ TCount
TraceSpec == TraceInit /\ [][TraceNext]_l

TraceAccepted == TLCGet("stats").diameter - 1 = Len(Trace)
=============================================================================
