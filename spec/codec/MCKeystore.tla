----------------------------- MODULE MCKeystore -----------------------------
(* Model-checking wrapper of Keystore.                                                     *)
(*  MCKeystore.cfg      the decrypt pipeline on every row of the decision table             *)
(*                      (key x passphrase x tried passphrase x alteration); one CASE line   *)
(*                      per finished row for replay on keystore.EncryptKey/DecryptKey.      *)
(*  MCKeystoreDir.cfg   the keystore directory machine; every edge printed for path replay  *)
(*                      on a real keystore.KeyStore.                                        *)
EXTENDS Keystore, Json

(* ---- pipeline: the directory variables idle ---- *)
VARIABLE act
TInit == PInit /\ KInit /\ act = [op |-> "init"]
TNext == PNext /\ UNCHANGED << kvars, act >>
TSpec == TInit /\ [][TNext]_<< pvars, kvars, act >>

EmitRow ==
  Done => PrintT(<< "CASE", ToJson([key |-> row.key, pass |-> row.pass, try |-> row.try,
                                    field |-> row.alt[1], mode |-> row.alt[2],
                                    outcome |-> Outcome, at |-> result.at,
                                    idkept |-> result.id = Atom("id0")]) >>)

(* ---- directory: the pipeline variables idle ---- *)
Idle == row = [key |-> 0, pass |-> "", try |-> "", alt |-> << "none", "value" >>]
        /\ file = Nil /\ stage = "done" /\ dk = Nil /\ result = Pending
DInit == KInit /\ Idle /\ act = [op |-> "init"]
DNext ==
  /\ UNCHANGED pvars
  /\ \/ \E k \in Keys, p \in Passes : NewAccount(k, p) /\ act' = [op |-> "New", key |-> k, p |-> p, q |-> "", ok |-> TRUE]
     \/ \E k \in Keys, p, q \in Passes, ok \in BOOLEAN :
          \/ Update(k, p, q, ok) /\ act' = [op |-> "Update", key |-> k, p |-> p, q |-> q, ok |-> ok]
          \/ Export(k, p, q, ok) /\ act' = [op |-> "Export", key |-> k, p |-> p, q |-> q, ok |-> ok]
     \/ \E k \in Keys, p \in Passes, ok \in BOOLEAN : Delete(k, p, ok) /\ act' = [op |-> "Delete", key |-> k, p |-> p, q |-> "", ok |-> ok]
     \/ \E b \in blobs, p, q \in Passes, ok \in BOOLEAN :
          Import(b, p, q, ok) /\ act' = [op |-> "Import", key |-> b.key, bp |-> b.pass, p |-> p, q |-> q, ok |-> ok]
DSpec == DInit /\ [][DNext]_<< pvars, kvars, act >>
DView == kvars
BlobBound == Cardinality(blobs) <= 2

KeySeq == <<1, 2, 3>>
DProj(a, b) == [accts |-> [i \in 1..3 |-> IF KeySeq[i] \in DOMAIN a THEN a[KeySeq[i]] ELSE "-"],
                blobs |-> Cardinality(b)]
(* blobs are identified for the driver by (key, pass) in the action; the projection needs only their number *)
Edge == PrintT(<< "EDGE", ToJson([from |-> [accts |-> DProj(accts, blobs).accts, blobs |-> {<< b.key, b.pass >> : b \in blobs}],
                                  act |-> act',
                                  to |-> [accts |-> DProj(accts', blobs').accts, blobs |-> {<< b.key, b.pass >> : b \in blobs'}]]) >>)
=============================================================================
