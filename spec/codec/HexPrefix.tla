----------------------------- MODULE HexPrefix -----------------------------
(* Property C10: the three key encodings of the Merkle-Patricia trie (KEYBYTES, HEX,       *)
(* COMPACT = the Yellow Paper's hex-prefix encoding HP, appendix C) convert losslessly.    *)
(*                                                                                         *)
(* The functional operators are written from the Yellow Paper definition                   *)
(*    HP(x,t) = (16 f(t),      16 x[0]+x[1], 16 x[2]+x[3], ...)   if |x| even              *)
(*              (16 (f(t)+1) + x[0], 16 x[1]+x[2], ...)           otherwise,  f(t) = 2 [t] *)
(* A HEX key is a sequence of nibbles 0..15 optionally followed by the terminator 16.      *)
(*                                                                                         *)
(* The in-place variant (trie/encoding.go:hexToCompactInPlace) is modelled the way the     *)
(* code runs: as a loop with a read index ni and a write index bi over ONE buffer, so that *)
(* an aliasing mistake (a write overtaking a read) is expressible and excluded by          *)
(* invariants (UnreadIntact, WriteBehindRead) and the result law (InPlaceSame).            *)
EXTENDS Integers, Sequences, FiniteSets, TLC

CONSTANTS FullLen,     \* all nibble strings over 0..15 up to this length
          SparseLen,   \* all nibble strings over SparseAlpha up to this length
          PairLen,     \* length bound of the pairwise leaf/extension comparison
          LongLens     \* lengths of long schematic keys (length bytes / counters of the code overflow at 2^8)

SparseAlpha == {0, 1, 15}
Term == 16

---------------------------------------------------------------------------
(* Functional definitions *)

HasTerm(h) == Len(h) > 0 /\ h[Len(h)] = Term
Strip(h)   == IF HasTerm(h) THEN SubSeq(h, 1, Len(h) - 1) ELSE h

(* two nibbles per byte; x has even length *)
Pack(x)    == [i \in 1..(Len(x) \div 2) |-> 16 * x[2*i - 1] + x[2*i]]
(* one byte -> two nibbles *)
Unpack(bs) == [i \in 1..(2 * Len(bs)) |->
                 IF i % 2 = 1 THEN bs[(i + 1) \div 2] \div 16 ELSE bs[i \div 2] % 16]

F(t) == IF t THEN 2 ELSE 0

HexToCompact(h) ==
  LET t == HasTerm(h)
      x == Strip(h)
  IN IF Len(x) % 2 = 0
       THEN << 16 * F(t) >> \o Pack(x)
       ELSE << 16 * (F(t) + 1) + x[1] >> \o Pack(Tail(x))

(* HP^-1 on a canonical compact key (non-empty, flag nibble 0..3, padding nibble 0) *)
CompactToHex(c) ==
  LET nibs == Unpack(c)
      flag == nibs[1]
      body == SubSeq(nibs, IF flag % 2 = 1 THEN 2 ELSE 3, Len(nibs))
  IN body \o (IF flag >= 2 THEN << Term >> ELSE << >>)

Canonical(c) ==
  /\ Len(c) >= 1
  /\ c[1] \div 16 \in 0..3
  /\ (c[1] \div 16) % 2 = 0 => c[1] % 16 = 0

KeybytesToHex(k) == Unpack(k) \o << Term >>
HexToKeybytes(h) == Pack(Strip(h))               \* defined for an even number of nibbles

IsLeafKey(h) == HasTerm(h)

---------------------------------------------------------------------------
(* The bounded domain explored exhaustively *)

SeqsUpTo(S, n) == UNION {[1..m -> S] : m \in 0..n}
(* long keys: nibble i is (7 i + s) mod 16 for two phases s *)
LongPaths == {[i \in 1..n |-> (7 * i + s) % 16] : n \in LongLens, s \in {0, 5}}
Paths   == SeqsUpTo(0..15, FullLen) \cup SeqsUpTo(SparseAlpha, SparseLen) \cup LongPaths
Domain  == Paths \cup {p \o << Term >> : p \in Paths}
PairDom == LET P == SeqsUpTo(SparseAlpha, PairLen) IN P \cup {p \o << Term >> : p \in P}

---------------------------------------------------------------------------
(* hexToCompactInPlace as the code's loop over a single buffer (0-based indices as in Go; *)
(* buf is 1-based, so Go's hex[i] is buf[i+1]).                                           *)

VARIABLES h,        \* the input HEX key (ghost: the original content of the buffer)
          buf,      \* the shared buffer: input and output
          pc,       \* "start" | "loop" | "done" | "na" (empty buffer: no room for the flag byte)
          hexLen, first, ni, bi

vars == << h, buf, pc, hexLen, first, ni, bi >>

BinLen == hexLen \div 2 + 1
Result == SubSeq(buf, 1, BinLen)

Init ==
  /\ h \in Domain
  /\ buf = h
  /\ pc = "start"
  /\ hexLen = 0 /\ first = 0 /\ ni = 0 /\ bi = 0

Start ==
  /\ pc = "start"
  /\ IF Len(h) = 0
       THEN pc' = "na" /\ UNCHANGED << hexLen, first, ni, bi >>
       ELSE LET t  == buf[Len(buf)] = Term
                hl == IF t THEN Len(buf) - 1 ELSE Len(buf)
                f0 == IF t THEN 32 ELSE 0
            IN /\ hexLen' = hl
               /\ bi' = 1
               /\ IF hl % 2 = 1
                    THEN first' = f0 + 16 + buf[1] /\ ni' = 1
                    ELSE first' = f0 /\ ni' = 0
               /\ pc' = "loop"
  /\ UNCHANGED << h, buf >>

(* one iteration of the loop body:  hex[bi] = hex[ni]<<4 | hex[ni+1]  (byte arithmetic) *)
LoopBody(b, n, i) == [b EXCEPT ![i + 1] = (16 * b[n + 1] + b[n + 2]) % 256]

Loop ==
  /\ pc = "loop" /\ ni < hexLen
  /\ buf' = LoopBody(buf, ni, bi)
  /\ bi' = bi + 1 /\ ni' = ni + 2
  /\ UNCHANGED << h, pc, hexLen, first >>

Finish ==
  /\ pc = "loop" /\ ni >= hexLen
  /\ buf' = [buf EXCEPT ![1] = first]
  /\ pc' = "done"
  /\ UNCHANGED << h, hexLen, first, ni, bi >>

Next == Start \/ Loop \/ Finish
Spec == Init /\ [][Next]_vars

(* The same loop run to completion as an operator (used by the trace specification to      *)
(* evaluate the in-place algorithm, not just its functional counterpart, on long keys).    *)
RECURSIVE RunLoop(_, _, _, _)
RunLoop(b, n, i, hl) == IF n < hl THEN RunLoop(LoopBody(b, n, i), n + 2, i + 1, hl) ELSE b
InPlaceFn(x) ==
  LET t  == x[Len(x)] = Term
      hl == IF t THEN Len(x) - 1 ELSE Len(x)
      f0 == IF t THEN 32 ELSE 0
      fb == IF hl % 2 = 1 THEN f0 + 16 + x[1] ELSE f0
      b  == RunLoop(x, hl % 2, 1, hl)
  IN SubSeq([b EXCEPT ![1] = fb], 1, hl \div 2 + 1)

---------------------------------------------------------------------------
(* The property *)

TypeOK ==
  /\ pc \in {"start", "loop", "done", "na"}
  /\ \A i \in 1..Len(buf) : buf[i] \in 0..255

(* aliasing safety of the loop: nothing that is still to be read has been overwritten,  *)
(* and a write never lands beyond the pair just read (bi <= ni+1)                             *)
UnreadIntact    == pc = "loop" => \A j \in (ni + 1)..Len(h) : buf[j] = h[j]
WriteBehindRead == pc = "loop" => bi <= ni + 1
PairsInRange    == pc = "loop" => (hexLen - ni) % 2 = 0 /\ ni <= hexLen

(* the in-place variant gives the same bytes *)
InPlaceSame == pc = "done" => Result = HexToCompact(h) /\ InPlaceFn(h) = Result

(* The functional laws depend on h only: they are evaluated once per key (in its initial   *)
(* state, pc = "start").                                                                   *)
AtKey(P) == pc = "start" => P

(* lossless: HP has a left inverse on all HEX keys ... *)
RoundTrip == CompactToHex(HexToCompact(h)) = h
(* ... produces canonical compact keys only ... *)
EncCanonical == Canonical(HexToCompact(h)) /\ Len(HexToCompact(h)) = Len(Strip(h)) \div 2 + 1
(* ... and a right inverse on canonical compact keys (checked on the image and on re-flagged images) *)
Reflag(c, f) == [c EXCEPT ![1] = 16 * f + (IF f % 2 = 1 THEN c[1] % 16 ELSE 0)]
RightInverse == \A f \in 0..3 :
                  LET c == Reflag(HexToCompact(h), f) IN
                  Canonical(c) /\ HexToCompact(CompactToHex(c)) = c

(* the flag: leaf and extension keys differ in bit 5 of the first byte, oddness in bit 4 *)
FlagBits ==
  LET c == HexToCompact(h) IN
  /\ ((c[1] \div 32) % 2 = 1) <=> IsLeafKey(h)
  /\ ((c[1] \div 16) % 2 = 1) <=> (Len(Strip(h)) % 2 = 1)

(* byte keys <-> nibble keys *)
KeybytesRoundTrip ==
  Len(Strip(h)) % 2 = 0 =>
     LET k == HexToKeybytes(h) IN
     /\ KeybytesToHex(k) = Strip(h) \o << Term >>
     /\ HexToKeybytes(KeybytesToHex(k)) = k
     /\ \A i \in 1..Len(k) : k[i] \in 0..255

(* compact forms of a leaf key and an extension key never coincide; HP is injective (pairwise) *)
PairImage == {<< g, HexToCompact(g) >> : g \in PairDom}     \* constant: evaluated once
LeafExtDistinct ==
  LET ch == HexToCompact(h) IN
  \A p \in PairImage :
     /\ (IsLeafKey(p[1]) # IsLeafKey(h)) => p[2] # ch
     /\ (p[1] # h) => p[2] # ch

KRoundTrip         == AtKey(RoundTrip)
KEncCanonical      == AtKey(EncCanonical)
KRightInverse      == AtKey(RightInverse)
KFlagBits          == AtKey(FlagBits)
KKeybytesRoundTrip == AtKey(KeybytesRoundTrip)
KLeafExtDistinct   == AtKey(LeafExtDistinct)
=============================================================================
