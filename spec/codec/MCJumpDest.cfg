SPECIFICATION MCSpec
CONSTANTS CodeSets <- Singletons
          AlphaLen = 4
          Aligns = {0, 1, 7}
          Pushes = {1, 2, 7, 8, 9, 15, 16, 17, 24, 25, 31, 32}
INVARIANTS BitmapRight ValidSetRight CacheSound FrameSound AnswerRight CachedEqualsFresh EmitCase
VIEW View
CHECK_DEADLOCK FALSE
