SPECIFICATION MCSpec
CONSTANTS Emit = FALSE
          BlobLen = 2
          Bases = {6, 7}
          EditSyms = {0, 1, 127, 128, 129, 130, 184, 192, 193, 248}
INVARIANTS BasesWF Laws
CHECK_DEADLOCK FALSE
