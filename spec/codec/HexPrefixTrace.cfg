SPECIFICATION TraceSpec
CONSTANTS FullLen = 0
          SparseLen = 0
          PairLen = 0
          LongLens = {}
POSTCONDITION TraceAccepted
CHECK_DEADLOCK FALSE
