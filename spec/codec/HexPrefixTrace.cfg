SPECIFICATION TraceSpec
CONSTANTS FullLen = 0
          SparseLen = 0
          PairLen = 0
POSTCONDITION TraceAccepted
CHECK_DEADLOCK FALSE
