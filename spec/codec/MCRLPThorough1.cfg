SPECIFICATION MCSpec
CONSTANTS FirstSyms = {0, 1, 55, 56, 127}
          MaxLen = 4
          FillBelow = 3
INVARIANTS Canonical Agreement Helpers Emit
CHECK_DEADLOCK FALSE
