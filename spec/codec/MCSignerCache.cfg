SPECIFICATION Spec
CONSTANTS
  TxChains = {1, 1337}
  Full = FALSE
  Mode = "cache"
INVARIANTS CacheLaws
CONSTRAINT Bound
VIEW View
CHECK_DEADLOCK FALSE
