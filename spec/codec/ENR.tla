--------------------------------- MODULE ENR ---------------------------------
(***************************************************************************)
(* Ethereum Node Records (EIP-778), record part of property C45.           *)
(*                                                                         *)
(*   record   = rlp [signature, seq, k1, v1, k2, v2, ...]                  *)
(*   content  = rlp [seq, k1, v1, k2, v2, ...]   (what the signature signs)*)
(*   keys sorted, unique; encoded size <= 300; seq is a 64-bit integer;    *)
(*   values are arbitrary RLP carried as is.                               *)
(*                                                                         *)
(* A decoded record is [sig, seq, pairs] with sig/seq byte strings (seq    *)
(* minimal big-endian) and pairs a sequence of [k |-> bytes, v |-> the     *)
(* value's encoding].                                                      *)
(* Signatures are uninterpreted: Signed is the set of triples              *)
(* [sig, content, pub] that were really produced with the private key of   *)
(* pub (supplied by the harness, which really signs); a signature is valid *)
(* iff its triple is in Signed.                                            *)
(* Rejection classes: RLP.tla's plus "toobig", "incomplete", "order",      *)
(* "dup".                                                                  *)
(***************************************************************************)
EXTENDS RLP

SizeLimit == 300

Rec(sig, seq, pairs) == [sig |-> sig, seq |-> seq, pairs |-> pairs]

RECURSIVE Flatten(_)
Flatten(ps) == IF Len(ps) = 0 THEN <<>> ELSE << Str(ps[1].k), RawV(ps[1].v) >> \o Flatten(Tail(ps))

EncodeRecord(r) == Enc(Lst(<< Str(r.sig), Str(r.seq) >> \o Flatten(r.pairs)))
Content(r)      == Enc(Lst(<< Str(r.seq) >> \o Flatten(r.pairs)))

(* bytewise lexicographic order on keys *)
RECURSIVE Less(_, _)
Less(a, b) == IF Len(b) = 0 THEN FALSE
              ELSE IF Len(a) = 0 THEN TRUE
              ELSE IF a[1] # b[1] THEN a[1] < b[1]
              ELSE Less(Tail(a), Tail(b))

(* k/v pairs of the window bs[lo..hi]; prev = previous key, first = no previous key *)
RECURSIVE DecPairs(_, _, _, _, _)
DecPairs(bs, lo, hi, prev, first) ==
  IF lo > hi THEN [ok |-> TRUE, ps |-> <<>>]
  ELSE LET k == DecT(TString, bs, lo, hi) IN
       IF ~k.ok THEN k
       ELSE IF lo + k.n > hi THEN Rej({"incomplete"})                 \* key without value
       ELSE LET v == DecT(TRaw, bs, lo + k.n, hi) IN
            IF ~v.ok THEN v
            ELSE IF ~first /\ k.v.b = prev THEN Rej({"dup"})
            ELSE IF ~first /\ Less(k.v.b, prev) THEN Rej({"order"})
            ELSE LET rest == DecPairs(bs, lo + k.n + v.n, hi, k.v.b, FALSE) IN
                 IF ~rest.ok THEN rest
                 ELSE [ok |-> TRUE, ps |-> << [k |-> k.v.b, v |-> v.v.b] >> \o rest.ps]

DecodeRecord(bs) ==
  LET hd == HdrLax(bs, 1, Len(bs)) IN
  IF ~hd.ok THEN Rej(IF hd.c = "short" THEN ShortAs ELSE {hd.c})
  ELSE IF hd.h + hd.p > SizeLimit THEN Rej({"toobig"})
  ELSE IF hd.k # "l" THEN Rej({"type"})
  ELSE LET lo == 1 + hd.h   hi == hd.h + hd.p IN
       IF lo > hi THEN Rej({"incomplete"})
       ELSE LET sig == DecT(TBytes, bs, lo, hi) IN
       IF ~sig.ok THEN sig
       ELSE IF lo + sig.n > hi THEN Rej({"incomplete"})
       ELSE LET seq == DecT(TUint(8), bs, lo + sig.n, hi) IN
       IF ~seq.ok THEN seq
       ELSE LET ps == DecPairs(bs, lo + sig.n + seq.n, hi, <<>>, TRUE) IN
       IF ~ps.ok THEN ps
       ELSE IF hd.h + hd.p # Len(bs) THEN Rej({"trailing"})
       ELSE [ok |-> TRUE, r |-> Rec(sig.v.b, seq.v.b, ps.ps)]

(* ----------------------------- "v4" identity ---------------------------- *)
HasKey(r, key) == \E i \in 1..Len(r.pairs) : r.pairs[i].k = key
Value(r, key)  == r.pairs[CHOOSE i \in 1..Len(r.pairs) : r.pairs[i].k = key].v

KeyId   == <<105, 100>>                                       \* "id"
KeySecp == <<115, 101, 99, 112, 50, 53, 54, 107, 49>>         \* "secp256k1"
V4      == <<118, 52>>                                        \* "v4"

(* the entries the v4 scheme reads must be well-formed RLP strings *)
StrValue(r, key) == Top(TBytes, Value(r, key))

SigValid(r, Signed) ==
  /\ HasKey(r, KeyId) /\ StrValue(r, KeyId).ok /\ StrValue(r, KeyId).v.b = V4
  /\ HasKey(r, KeySecp) /\ StrValue(r, KeySecp).ok /\ Len(StrValue(r, KeySecp).v.b) = 33
  /\ [sig |-> r.sig, content |-> Content(r), pub |-> StrValue(r, KeySecp).v.b] \in Signed

(* a node record is accepted iff it decodes and its signature verifies *)
AcceptRecord(bs, Signed) == LET d == DecodeRecord(bs) IN d.ok /\ SigValid(d.r, Signed)

(* -------------------------------- laws --------------------------------- *)
Sorted(r) == \A i \in 1..(Len(r.pairs) - 1) : Less(r.pairs[i].k, r.pairs[i + 1].k)
CanonicalRecord(bs) == LET d == DecodeRecord(bs) IN
                       d.ok => /\ EncodeRecord(d.r) = bs
                               /\ Len(bs) <= SizeLimit
                               /\ Sorted(d.r)
                               /\ IntWF(d.r.seq, 8)
=============================================================================
