----------------------------- MODULE FeeMathBig -----------------------------
(* The EIP-1559 / EIP-4844 / EIP-7918 formulas of FeeMath.tla over BigNat, so that TLC can   *)
(* evaluate them exactly at mainnet magnitudes (wei base fees, gas limits up to 2^63, blob   *)
(* fees of 10^26).  The formulas are the same transcription of the EIP pseudo code;           *)
(* MCFeeMathBig checks that both versions agree wherever the native one is exact.             *)
EXTENDS FeeMath, BigNat

B(n) == FromNat(n)

BigGasTarget(gasLimit) == Div(gasLimit, B(ELASTICITY_MULTIPLIER))

BigExpectedBaseFee(london, pLimit, pUsed, pBase) ==
  IF ~london THEN B(INITIAL_BASE_FEE)
  ELSE LET target == BigGasTarget(pLimit) IN
       IF pUsed = target THEN pBase
       ELSE IF Lt(target, pUsed)
            THEN LET gasUsedDelta == Sub(pUsed, target)
                     baseFeeDelta == BMax(Div(Div(Mul(pBase, gasUsedDelta), target), B(BASE_FEE_MAX_CHANGE_DENOMINATOR)), B(1))
                 IN  Add(pBase, baseFeeDelta)
            ELSE LET gasUsedDelta == Sub(target, pUsed)
                     baseFeeDelta == Div(Div(Mul(pBase, gasUsedDelta), target), B(BASE_FEE_MAX_CHANGE_DENOMINATOR))
                 IN  Sub(pBase, baseFeeDelta)

BigGasLimitOK(parentGasLimit, gasLimit) ==
  LET d == Div(parentGasLimit, B(GAS_LIMIT_ADJUSTMENT_FACTOR)) IN
  /\ Lt(gasLimit, Add(parentGasLimit, d))
  /\ Lt(Sub(parentGasLimit, d), gasLimit)
  /\ Le(B(GAS_LIMIT_MINIMUM), gasLimit)

BigAdjustedParentLimit(london, pLimit) == IF london THEN pLimit ELSE Mul(pLimit, B(ELASTICITY_MULTIPLIER))

(* hBase = << -1 >> stands for "field absent" *)
BigValid1559Header(london, pLimit, pUsed, pBase, hLimit, hBase) ==
  /\ BigGasLimitOK(BigAdjustedParentLimit(london, pLimit), hLimit)
  /\ hBase # << -1 >>
  /\ hBase = BigExpectedBaseFee(london, pLimit, pUsed, pBase)

RECURSIVE BigFakeExpLoop(_, _, _, _, _)
BigFakeExpLoop(i, output, accum, numerator, denominator) ==
  IF ~IsZero(accum)
  THEN BigFakeExpLoop(i + 1, Add(output, accum), Div(Mul(accum, numerator), MulDigit(denominator, i)), numerator, denominator)
  ELSE output
(* i stays below Base = 10000 for every exponent below ~3000 *)
BigFakeExponential(factor, numerator, denominator) ==
  Div(BigFakeExpLoop(1, << >>, Mul(factor, denominator), numerator, denominator), denominator)

BigBlobBaseFee(excessBlobGas, updateFraction) == BigFakeExponential(B(MIN_BASE_FEE_PER_BLOB_GAS), excessBlobGas, updateFraction)

(* sched = [target, max : Nat, frac : BigNat] *)
BigCalcExcessBlobGas(osaka, sched, pExcess, pUsed, pBase) ==
  LET targetBlobGas == B(sched.target * GAS_PER_BLOB) IN
  IF Lt(Add(pExcess, pUsed), targetBlobGas) THEN << >>
  ELSE IF osaka /\ Lt(Mul(B(GAS_PER_BLOB), BigBlobBaseFee(pExcess, sched.frac)), Mul(B(BLOB_BASE_COST), pBase))
       THEN Add(pExcess, Div(Mul(pUsed, B(sched.max - sched.target)), B(sched.max)))
       ELSE Sub(Add(pExcess, pUsed), targetBlobGas)
=============================================================================
