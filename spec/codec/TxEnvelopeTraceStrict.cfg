SPECIFICATION TraceSpec
CONSTANTS BlobLen = 131072
          KnownFindings = FALSE
INVARIANTS KnownReport
POSTCONDITION TraceAccepted
CHECK_DEADLOCK FALSE
