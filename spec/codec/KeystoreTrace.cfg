SPECIFICATION TraceSpec
CONSTANTS Passes = {"A", "B"}
          Keys = {1}
          MaxAccounts = 0
POSTCONDITION TraceAccepted
CHECK_DEADLOCK FALSE
