SPECIFICATION MSpec
CONSTANTS FullLen = 0
          SparseLen = 0
          PairLen = 0
          LongLens = {}
          MemAlpha = {0, 15}
          MemLen = 1
          MaxBufs = 3
          MemDepth = 3
INVARIANTS ResultIsFunction
PROPERTIES NoForeignWrites
CONSTRAINT EmitMem
CHECK_DEADLOCK FALSE
