---------------------------- MODULE MCFeeMathBig ----------------------------
(* Ties FeeMathBig to FeeMath and BigNat to native arithmetic: on every case of the grid    *)
(* (where native TLC arithmetic is exact) both transcriptions give the same number, and the  *)
(* BigNat operations satisfy their defining equations on multi-digit operands.               *)
EXTENDS FeeMathBig, TLC

CONSTANTS Limits, BaseFees, Fracs, Excesses, Nums

VARIABLE c

UsedOf(limit) == LET t == GasTarget(limit) IN {0, 1, t - 1, t, t + 1, limit - 1, limit, limit \div 3} \cap (0..limit)

Init ==
  \/ \E ld \in BOOLEAN, pl \in Limits, pb \in BaseFees : \E pu \in UsedOf(pl) :
        /\ SafeBaseFee(pl, pu, pb)
        /\ c = [fn |-> "basefee", london |-> ld, pLimit |-> pl, pUsed |-> pu, pBase |-> pb]
  \/ \E pl \in Limits : \E hl \in {pl - pl \div 1024 - 1, pl - pl \div 1024, pl - pl \div 1024 + 1, pl, pl + pl \div 1024 - 1, pl + pl \div 1024, 4999, 5000} :
        c = [fn |-> "gaslimit", pLimit |-> pl, hLimit |-> hl]
  \/ \E f \in Fracs, e \in Excesses : SafeFakeExp(1, e, f) /\ c = [fn |-> "blobfee", frac |-> f, excess |-> e]
  \/ \E o \in BOOLEAN, f \in Fracs, e \in Excesses, b \in BaseFees, t \in {0, 1, 3}, u \in {0, 1, 2, 3, 6} :
        LET s == [target |-> t, max |-> t + 3, frac |-> f] IN
        /\ SafeExcess(o, s, e, u * GAS_PER_BLOB, b)
        /\ c = [fn |-> "excess", osaka |-> o, sched |-> s, pExcess |-> e, pUsed |-> u * GAS_PER_BLOB, pBase |-> b]
  \/ \E x \in Nums, y \in Nums : c = [fn |-> "arith", x |-> x, y |-> y]
Next == UNCHANGED c
Spec == Init /\ [][Next]_c

Agree ==
  CASE c.fn = "basefee"  -> BigExpectedBaseFee(c.london, B(c.pLimit), B(c.pUsed), B(c.pBase))
                              = B(ExpectedBaseFee(c.london, c.pLimit, c.pUsed, c.pBase))
    [] c.fn = "gaslimit" -> BigGasLimitOK(B(c.pLimit), B(c.hLimit)) = GasLimitOK(c.pLimit, c.hLimit)
    [] c.fn = "blobfee"  -> BigBlobBaseFee(B(c.excess), B(c.frac)) = B(BlobBaseFee(c.excess, c.frac))
    [] c.fn = "excess"   -> BigCalcExcessBlobGas(c.osaka, [c.sched EXCEPT !.frac = B(@)], B(c.pExcess), B(c.pUsed), B(c.pBase))
                              = B(CalcExcessBlobGas(c.osaka, c.sched, c.pExcess, c.pUsed, c.pBase))
    [] OTHER -> TRUE

(* BigNat against native arithmetic (operands below 46340 so that the native product is exact)  *)
(* and against its own defining equations on products of those operands (up to 10^18)           *)
Arith ==
  c.fn = "arith" =>
    LET x == c.x  y == c.y  bx == B(x)  by == B(y)  p == Mul(bx, by)  pp == Mul(p, Add(p, bx)) IN
    /\ IsBig(bx) /\ IsBig(p) /\ IsBig(pp)
    /\ ToNat(bx) = x /\ Add(bx, by) = B(x + y) /\ p = B(x * y) /\ Mul(by, bx) = p
    /\ (x >= y => Sub(bx, by) = B(x - y))
    /\ Cmp(bx, by) = (IF x < y THEN -1 ELSE IF x > y THEN 1 ELSE 0)
    /\ (y > 0 => DivMod(bx, by) = << B(x \div y), B(x % y) >>)
    /\ (y > 0 => DivMod(Add(p, B(y - 1)), by) = << bx, B(y - 1) >>)                 \* (x*y + y-1) / y
    /\ (x > 0 /\ y > 0 => LET qr == DivMod(pp, Add(p, B(1))) IN                    \* multi-digit divisor
                          /\ Add(Mul(qr[1], Add(p, B(1))), qr[2]) = pp /\ Lt(qr[2], Add(p, B(1))))
    /\ (y > 0 => Div(Mul(pp, by), by) = pp)
=============================================================================
