------------------------------- MODULE BigNat -------------------------------
(* Natural numbers of arbitrary size for TLC (whose integers are 32 bit): a number is the  *)
(* sequence of its base-10000 digits, least significant first, without leading zeros       *)
(* (zero is the empty sequence).  Only school arithmetic: every intermediate value is      *)
(* below 10^8 + 10^4.  Used by FeeMathBig to evaluate the fee formulas at mainnet           *)
(* magnitudes (wei-denominated base fees, 2^63 gas limits, blob fees of 10^26 wei).         *)
EXTENDS Integers, Sequences

Base == 10000

IsBig(a) == /\ \A i \in 1..Len(a) : a[i] \in 0..(Base - 1)
            /\ (Len(a) > 0 => a[Len(a)] # 0)

RECURSIVE Norm(_)
Norm(a) == IF Len(a) > 0 /\ a[Len(a)] = 0 THEN Norm(SubSeq(a, 1, Len(a) - 1)) ELSE a

RECURSIVE FromNat(_)
FromNat(n) == IF n = 0 THEN << >> ELSE << n % Base >> \o FromNat(n \div Base)

(* value of a (only when it fits: a < 2^31) *)
RECURSIVE ToNatFrom(_, _)
ToNatFrom(a, i) == IF i > Len(a) THEN 0 ELSE a[i] + Base * ToNatFrom(a, i + 1)
ToNat(a) == ToNatFrom(a, 1)
FitsNat(a) == Len(a) <= 2 \/ (Len(a) = 3 /\ a[3] <= 20)      \* < 2.1 * 10^9

Digit(a, i) == IF i <= Len(a) THEN a[i] ELSE 0
IsZero(a) == Len(a) = 0

(* -1, 0, 1 *)
RECURSIVE CmpFrom(_, _, _)
CmpFrom(a, b, i) ==
  IF i = 0 THEN 0
  ELSE IF a[i] < b[i] THEN -1 ELSE IF a[i] > b[i] THEN 1 ELSE CmpFrom(a, b, i - 1)
Cmp(a, b) == IF Len(a) < Len(b) THEN -1 ELSE IF Len(a) > Len(b) THEN 1 ELSE CmpFrom(a, b, Len(a))
Lt(a, b) == Cmp(a, b) < 0
Le(a, b) == Cmp(a, b) <= 0
Eq(a, b) == a = b

RECURSIVE AddFrom(_, _, _, _)
AddFrom(a, b, i, carry) ==
  IF i > Len(a) /\ i > Len(b)
  THEN (IF carry = 0 THEN << >> ELSE << carry >>)
  ELSE LET s == Digit(a, i) + Digit(b, i) + carry IN << s % Base >> \o AddFrom(a, b, i + 1, s \div Base)
Add(a, b) == AddFrom(a, b, 1, 0)

(* a - b for a >= b *)
RECURSIVE SubFrom(_, _, _, _)
SubFrom(a, b, i, borrow) ==
  IF i > Len(a) THEN << >>
  ELSE LET d == a[i] - Digit(b, i) - borrow IN
       IF d < 0 THEN << d + Base >> \o SubFrom(a, b, i + 1, 1) ELSE << d >> \o SubFrom(a, b, i + 1, 0)
Sub(a, b) == Norm(SubFrom(a, b, 1, 0))

(* a * k for a digit-sized k (0 <= k < Base) *)
RECURSIVE MulDigitFrom(_, _, _, _)
MulDigitFrom(a, k, i, carry) ==
  IF i > Len(a) THEN (IF carry = 0 THEN << >> ELSE << carry >>)
  ELSE LET p == a[i] * k + carry IN << p % Base >> \o MulDigitFrom(a, k, i + 1, p \div Base)
MulDigit(a, k) == IF k = 0 THEN << >> ELSE MulDigitFrom(a, k, 1, 0)

Shift(a, n) == IF IsZero(a) THEN a ELSE [i \in 1..n |-> 0] \o a            \* a * Base^n

RECURSIVE MulFrom(_, _, _)
MulFrom(a, b, i) == IF i > Len(b) THEN << >> ELSE Add(Shift(MulDigit(a, b[i]), i - 1), MulFrom(a, b, i + 1))
Mul(a, b) == IF IsZero(a) \/ IsZero(b) THEN << >> ELSE MulFrom(a, b, 1)

(* largest q in lo..hi with q * d <= r (the invariant lo * d <= r holds on entry) *)
RECURSIVE QuotDigit(_, _, _, _)
QuotDigit(r, d, lo, hi) ==
  IF lo = hi THEN lo
  ELSE LET mid == (lo + hi + 1) \div 2 IN
       IF Le(MulDigit(d, mid), r) THEN QuotDigit(r, d, mid, hi) ELSE QuotDigit(r, d, lo, mid - 1)

(* long division, most significant digit first; returns <<quotient digits (msd first, reversed later), remainder>> *)
RECURSIVE DivFrom(_, _, _, _, _)
DivFrom(a, d, i, rem, q) ==
  IF i = 0 THEN << q, rem >>
  ELSE LET r1 == Norm(<< a[i] >> \o rem)                      \* rem * Base + a[i]
           qd == QuotDigit(r1, d, 0, Base - 1)
       IN  DivFrom(a, d, i - 1, Sub(r1, MulDigit(d, qd)), << qd >> \o q)
DivMod(a, d) == LET r == DivFrom(a, d, Len(a), << >>, << >>) IN << Norm(r[1]), r[2] >>   \* d # 0
Div(a, d) == DivMod(a, d)[1]
Mod(a, d) == DivMod(a, d)[2]

BMax(a, b) == IF Lt(a, b) THEN b ELSE a
=============================================================================
