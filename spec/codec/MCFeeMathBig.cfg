SPECIFICATION Spec
CONSTANTS
  Limits = {5000, 5001, 10000, 30000, 60001}
  BaseFees = {0, 1, 7, 8, 9, 16, 17, 1000, 12345, 70000}
  Fracs = {1, 3, 10, 50, 128}
  Excesses = {0, 1, 9, 10, 11, 100, 128, 300, 1000}
  Nums = {0, 1, 2, 9999, 10000, 10001, 12345, 46339, 100, 7, 40000}
INVARIANTS Agree Arith
CHECK_DEADLOCK FALSE
