SPECIFICATION MCSpec
CONSTANTS Emit = TRUE
          BlobLen = 131072
          Bases = {1, 2, 3, 4, 5, 6, 7, 8}
          EditSyms = {0, 1, 55, 56, 127, 128, 129, 130, 148, 160, 183, 184, 185, 191, 192, 193, 194, 247, 248, 249, 255}
INVARIANTS BasesWF Laws
CHECK_DEADLOCK FALSE
