--------------------------- MODULE HexPrefixTrace ---------------------------
(* Trace validation for C10: every line of the ndjson trace is one call <<fn, in, out>> of  *)
(* a real function of trie/encoding.go; it is accepted iff out is what the specification   *)
(* operator of that function yields on in, and the round-trip laws hold on that instance.  *)
EXTENDS HexPrefix, Json, IOUtils

Trace == ndJsonDeserialize(IOEnv.TRACE)

VARIABLE l
Ev == Trace[l]

IsHex(x)   == \A i \in 1..Len(x) : x[i] \in 0..15 \/ (i = Len(x) /\ x[i] = Term)
IsBytes(x) == \A i \in 1..Len(x) : x[i] \in 0..255

Explained ==
  CASE Ev.fn = "hexToCompact"        -> IsHex(Ev.in) /\ Ev.out = HexToCompact(Ev.in)
                                        /\ CompactToHex(Ev.out) = Ev.in /\ Canonical(Ev.out)
    [] Ev.fn = "hexToCompactInPlace" -> IsHex(Ev.in) /\ Ev.out = InPlaceFn(Ev.in) /\ Ev.out = HexToCompact(Ev.in)
    [] Ev.fn = "compactToHex"        -> Canonical(Ev.in) /\ IsBytes(Ev.in) /\ Ev.out = CompactToHex(Ev.in)
                                        /\ HexToCompact(Ev.out) = Ev.in /\ IsHex(Ev.out)
    [] Ev.fn = "hexToKeybytes"       -> IsHex(Ev.in) /\ Ev.out = HexToKeybytes(Ev.in)
                                        /\ KeybytesToHex(Ev.out) = Strip(Ev.in) \o << Term >>
    [] Ev.fn = "keybytesToHex"       -> IsBytes(Ev.in) /\ Ev.out = KeybytesToHex(Ev.in) /\ HexToKeybytes(Ev.out) = Ev.in
    [] Ev.fn = "writeHexKey"         -> IsBytes(Ev.in) /\ Ev.out = Unpack(Ev.in)
    [] OTHER -> FALSE

TraceInit == Init /\ h = << >> /\ l = 1
TraceNext == l <= Len(Trace) /\ Explained /\ l' = l + 1 /\ UNCHANGED vars
TraceSpec == TraceInit /\ [][TraceNext]_<< vars, l >>

TraceAccepted == TLCGet("stats").diameter - 1 = Len(Trace)
=============================================================================
