SPECIFICATION Spec
CONSTANTS FullLen = 3
          SparseLen = 7
          PairLen = 3
          LongLens = {253, 254, 255, 256, 257, 258, 509, 510, 511, 512, 513, 514}
INVARIANTS TypeOK UnreadIntact WriteBehindRead PairsInRange InPlaceSame
           KRoundTrip KEncCanonical KRightInverse KFlagBits KKeybytesRoundTrip KLeafExtDistinct
           Emit
CHECK_DEADLOCK FALSE
