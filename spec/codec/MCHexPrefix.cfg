SPECIFICATION Spec
CONSTANTS FullLen = 3
          SparseLen = 7
          PairLen = 3
INVARIANTS TypeOK UnreadIntact WriteBehindRead PairsInRange InPlaceSame
           KRoundTrip KEncCanonical KRightInverse KFlagBits KKeybytesRoundTrip KLeafExtDistinct
           Emit
CHECK_DEADLOCK FALSE
