------------------------------ MODULE Keystore ------------------------------
(* Property C52: an encrypted key file (Web3 Secret Storage, version 3) decrypts to the     *)
(* same key and address with the passphrase it was encrypted with, and with no other;       *)
(* keys stored through the keystore round-trip.                                            *)
(*                                                                                         *)
(* Part 1 -- the decrypt pipeline as a decision procedure, stage by stage in the order of  *)
(* accounts/keystore/passphrase.go (DecryptKey -> decryptKeyV3 -> DecryptDataV3 ->          *)
(* getKDFKey -> MAC check -> AES-CTR -> ToECDSA).  The primitives are uninterpreted and     *)
(* injective:  KDF(pass, salt, params), Enc/Dec (a stream cipher keyed by key and iv),     *)
(* MAC(key half, ciphertext).  By the Web3 definition the MAC covers the second half of the *)
(* derived key and the ciphertext only -- not the iv, the address or the id.  Hence a file  *)
(* whose iv was altered decrypts, with the right passphrase, to a different key, and an     *)
(* altered address/id is not noticed by DecryptKey: these are expected outcomes here.       *)
(*                                                                                         *)
(* Part 2 -- the keystore directory as a small state machine (NewAccount, Update, Export,  *)
(* Import, Delete) over accounts and the passphrase each is currently stored under.        *)
EXTENDS Integers, Sequences, FiniteSets, TLC

---------------------------------------------------------------------------
(* Part 1: uninterpreted primitives *)

Params0 == [n |-> 2, r |-> 8, p |-> 1, dklen |-> 32]

KDF(pass, salt, prm)  == [pass |-> pass, salt |-> salt, prm |-> prm]
Enc(dk, iv, plain)    == [dk |-> dk, iv |-> iv, plain |-> plain]
Dec(dk, iv, ct)       == IF ct.dk = dk /\ ct.iv = iv THEN ct.plain
                         ELSE [garbled |-> ct.plain, by |-> << dk, iv >>]       \* some other 32 bytes
MAC(dk, ct)           == [dk |-> dk, ct |-> ct]
Atom(x)               == [atom |-> x]                                           \* all opaque values are records (comparable)
Flip(x)               == [flipped |-> x]                                        \* a different value of the same shape
AddrOf(key)           == [addrOf |-> key]

(* the file EncryptKey writes *)
Encrypt(key, id, pass, salt, iv) ==
  LET dk == KDF(pass, salt, Params0)
      ct == Enc(dk, iv, key)
  IN [version |-> 3, id |-> id, idOK |-> TRUE, address |-> AddrOf(key),
      cipher |-> "aes-128-ctr", kdf |-> "scrypt", prm |-> Params0,
      salt |-> salt, saltHex |-> TRUE, iv |-> iv, ivHex |-> TRUE,
      ct |-> ct, ctHex |-> TRUE, mac |-> MAC(dk, ct), macHex |-> TRUE]

(* alterations of one field of the file: "value" = another well-formed value, "malformed" = not parsable / not allowed *)
Alterations ==
  { << "none", "value" >>,
    << "salt", "value" >>, << "salt", "malformed" >>,
    << "iv", "value" >>, << "iv", "malformed" >>,
    << "ciphertext", "value" >>, << "ciphertext", "malformed" >>,
    << "mac", "value" >>, << "mac", "malformed" >>,
    << "n", "value" >>, << "n", "malformed" >>,
    << "r", "value" >>, << "p", "value" >>,
    << "cipher", "value" >>, << "kdf", "value" >>,
    << "version", "value" >>, << "version", "malformed" >>,
    << "id", "value" >>, << "id", "malformed" >>,
    << "address", "value" >>, << "address", "malformed" >> }      \* the address member is informational

Alter(f, alt) ==
  LET fld == alt[1]  bad == alt[2] = "malformed" IN
  CASE fld = "none"       -> f
    [] fld = "salt"       -> IF bad THEN [f EXCEPT !.saltHex = FALSE] ELSE [f EXCEPT !.salt = Flip(f.salt)]
    [] fld = "iv"         -> IF bad THEN [f EXCEPT !.ivHex = FALSE] ELSE [f EXCEPT !.iv = Flip(f.iv)]
    [] fld = "ciphertext" -> IF bad THEN [f EXCEPT !.ctHex = FALSE] ELSE [f EXCEPT !.ct = Flip(f.ct)]
    [] fld = "mac"        -> IF bad THEN [f EXCEPT !.macHex = FALSE] ELSE [f EXCEPT !.mac = Flip(f.mac)]
    [] fld = "n"          -> IF bad THEN [f EXCEPT !.prm.n = 3] ELSE [f EXCEPT !.prm.n = 4]     \* 3: not a power of two
    [] fld = "r"          -> [f EXCEPT !.prm.r = 4]
    [] fld = "p"          -> [f EXCEPT !.prm.p = 2]
    [] fld = "cipher"     -> [f EXCEPT !.cipher = "aes-128-cbc"]
    [] fld = "kdf"        -> [f EXCEPT !.kdf = "bcrypt"]
    [] fld = "version"    -> IF bad THEN [f EXCEPT !.version = 1] ELSE [f EXCEPT !.version = 4]
    [] fld = "id"         -> IF bad THEN [f EXCEPT !.idOK = FALSE] ELSE [f EXCEPT !.id = Flip(f.id)]
    [] fld = "address"    -> [f EXCEPT !.address = Flip(f.address)]

(* dklen is not altered: the definition needs dklen >= 32 but says nothing about other values, and the *)
(* KDF output for another dklen is related to the original one (prefix), which "uninterpreted" cannot say *)
ParamsOK(prm) == prm.n > 1 /\ prm.n \in {2, 4, 8, 16} /\ prm.r > 0 /\ prm.p > 0 /\ prm.dklen >= 32

---------------------------------------------------------------------------
(* The pipeline as a state machine: one action per stage, in the order of the code *)

CONSTANTS Passes,     \* passphrases (strings), including the empty one
          Keys        \* private keys (model values / small ints)

VARIABLES row,        \* [key, pass, try, alt]: encrypted with pass, altered by alt, decrypted with try
          file,       \* the (altered) key file
          stage,      \* next stage of the pipeline, or "done"
          dk,         \* derived key once computed
          result      \* [class |-> "pending" | "Key" | "Reject", at, key, address, id]

pvars == << row, file, stage, dk, result >>

Nil == Atom("nil")
Pending == [class |-> "pending", at |-> "", key |-> Nil, address |-> Nil, id |-> Nil]
Reject(at) == [class |-> "Reject", at |-> at, key |-> Nil, address |-> Nil, id |-> Nil]

File0(key, pass) == Encrypt(Atom(key), Atom("id0"), pass, Atom("salt0"), Atom("iv0"))

PInit ==
  /\ row \in [key : Keys, pass : Passes, try : Passes, alt : Alterations]
  /\ file = Alter(File0(row.key, row.pass), row.alt)
  /\ stage = "version" /\ dk = Nil /\ result = Pending

Goto(s)  == stage' = s /\ UNCHANGED << row, file, dk, result >>
Fail(at) == stage' = "done" /\ result' = Reject(at) /\ UNCHANGED << row, file, dk >>

SVersion == stage = "version" /\ IF file.version # 3 THEN Fail("version") ELSE Goto("id")
SId      == stage = "id"      /\ IF ~file.idOK THEN Fail("id") ELSE Goto("cipher")
SCipher  == stage = "cipher"  /\ IF file.cipher # "aes-128-ctr" THEN Fail("cipher") ELSE Goto("hex")
SHex     == stage = "hex"     /\ IF ~(file.macHex /\ file.ivHex /\ file.ctHex) THEN Fail("hex") ELSE Goto("kdf")
SKdf     == /\ stage = "kdf"
            /\ IF ~file.saltHex THEN Fail("salt")
               ELSE IF file.kdf # "scrypt" THEN Fail("kdf")
               ELSE IF ~ParamsOK(file.prm) THEN Fail("params")
               ELSE /\ dk' = KDF(row.try, file.salt, file.prm)
                    /\ stage' = "mac" /\ UNCHANGED << row, file, result >>
SMac     == stage = "mac"     /\ IF MAC(dk, file.ct) # file.mac THEN Fail("mac") ELSE Goto("decrypt")
SDecrypt == /\ stage = "decrypt"
            /\ LET plain == Dec(dk, file.iv, file.ct) IN
               result' = [class |-> "Key", at |-> "", key |-> plain, address |-> AddrOf(plain), id |-> file.id]
            /\ stage' = "done" /\ UNCHANGED << row, file, dk >>

PNext == SVersion \/ SId \/ SCipher \/ SHex \/ SKdf \/ SMac \/ SDecrypt
PSpec == PInit /\ [][PNext]_pvars

(* coarse outcome of a finished run *)
OutcomeOf(res, key) == IF res.class = "Reject" THEN "Reject"
                       ELSE IF res.key = Atom(key) THEN "SameKey" ELSE "OtherKey"
Outcome == OutcomeOf(result, row.key)

(* the same pipeline as one function (used for trace validation; StagedIsRun ties the two) *)
Run(f, try) ==
  IF f.version # 3 THEN Reject("version")
  ELSE IF ~f.idOK THEN Reject("id")
  ELSE IF f.cipher # "aes-128-ctr" THEN Reject("cipher")
  ELSE IF ~(f.macHex /\ f.ivHex /\ f.ctHex) THEN Reject("hex")
  ELSE IF ~f.saltHex THEN Reject("salt")
  ELSE IF f.kdf # "scrypt" THEN Reject("kdf")
  ELSE IF ~ParamsOK(f.prm) THEN Reject("params")
  ELSE LET k == KDF(try, f.salt, f.prm) IN
       IF MAC(k, f.ct) # f.mac THEN Reject("mac")
       ELSE LET plain == Dec(k, f.iv, f.ct) IN
            [class |-> "Key", at |-> "", key |-> plain, address |-> AddrOf(plain), id |-> f.id]

---------------------------------------------------------------------------
(* The property, on finished runs *)

Done == stage = "done"

(* decrypting the untouched file with the passphrase it was encrypted with returns the key and its address *)
RightPassOpens ==
  (Done /\ row.alt[1] = "none" /\ row.try = row.pass) =>
      result.class = "Key" /\ result.key = Atom(row.key) /\ result.address = AddrOf(Atom(row.key)) /\ result.id = Atom("id0")

(* decrypting with any other passphrase fails -- whatever was altered in the file *)
WrongPassFails == (Done /\ row.try # row.pass) => result.class = "Reject"

(* a returned key always comes with the address derived from it (the file's address field is not trusted) *)
AddressFromKey == (Done /\ result.class = "Key") => result.address = AddrOf(result.key)

(* with the right passphrase: everything the MAC or the KDF input covers is detected; iv is not covered *)
MacCovers ==
  (Done /\ row.try = row.pass) =>
     /\ row.alt[1] \in {"salt", "ciphertext", "mac", "n", "r", "p", "cipher", "kdf", "version"} => result.class = "Reject"
     /\ row.alt = << "iv", "value" >> => result.class = "Key" /\ result.key # Atom(row.key)
     /\ row.alt \in {<< "address", "value" >>, << "address", "malformed" >>, << "id", "value" >>} => result.class = "Key" /\ result.key = Atom(row.key)

StagedIsRun == Done => result = Run(file, row.try)

---------------------------------------------------------------------------
(* Part 2: the keystore directory *)

CONSTANTS MaxAccounts

VARIABLES accts,      \* [key -> passphrase] for the keys currently stored
          blobs       \* exported key files: set of [key, pass]

kvars == << accts, blobs >>

KInit == accts = << >> /\ blobs = {}

Stored == DOMAIN accts
With(f, k, v) == [x \in DOMAIN f \cup {k} |-> IF x = k THEN v ELSE f[x]]
Without(f, k) == [x \in DOMAIN f \ {k} |-> f[x]]

(* each action carries ok = whether the call is expected to succeed *)
NewAccount(k, p) == k \notin Stored /\ Cardinality(Stored) < MaxAccounts /\ accts' = With(accts, k, p) /\ UNCHANGED blobs
Update(k, p, q, ok) ==
  /\ k \in Stored /\ ok = (accts[k] = p)
  /\ accts' = IF ok THEN With(accts, k, q) ELSE accts
  /\ UNCHANGED blobs
Delete(k, p, ok) ==
  /\ k \in Stored /\ ok = (accts[k] = p)
  /\ accts' = IF ok THEN Without(accts, k) ELSE accts
  /\ UNCHANGED blobs
Export(k, p, q, ok) ==
  /\ k \in Stored /\ ok = (accts[k] = p)
  /\ blobs' = IF ok THEN blobs \cup {[key |-> k, pass |-> q]} ELSE blobs
  /\ UNCHANGED accts
(* importing needs the blob's passphrase and refuses a key that is already stored *)
Import(b, p, q, ok) ==
  /\ b \in blobs /\ ok = (b.pass = p /\ b.key \notin Stored)
  /\ accts' = IF ok THEN With(accts, b.key, q) ELSE accts
  /\ UNCHANGED blobs

KNext ==
  \/ \E k \in Keys, p \in Passes : NewAccount(k, p)
  \/ \E k \in Keys, p, q \in Passes, ok \in BOOLEAN : Update(k, p, q, ok) \/ Export(k, p, q, ok)
  \/ \E k \in Keys, p \in Passes, ok \in BOOLEAN : Delete(k, p, ok)
  \/ \E b \in blobs, p, q \in Passes, ok \in BOOLEAN : Import(b, p, q, ok)

KSpec == KInit /\ [][KNext]_kvars

(* round trip: the file of a stored key is File0(k, accts[k]); it opens with exactly that passphrase *)
StoreRoundTrip ==
  \A k \in Stored : \A p \in Passes :
     LET r == Run(File0(k, accts[k]), p) IN
     IF p = accts[k] THEN r.class = "Key" /\ r.key = Atom(k) /\ r.address = AddrOf(Atom(k)) ELSE r.class = "Reject"
DirBounded == Stored \subseteq Keys /\ \A b \in blobs : b.key \in Keys /\ b.pass \in Passes
=============================================================================
