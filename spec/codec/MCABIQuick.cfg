SPECIFICATION Spec
CONSTANTS Level = "quick"
INVARIANTS RoundTrip Canonical TruncationRejected Emit
CHECK_DEADLOCK FALSE
