SPECIFICATION Spec
CONSTANTS FullLen = 4
          SparseLen = 8
          PairLen = 4
INVARIANTS TypeOK UnreadIntact WriteBehindRead PairsInRange InPlaceSame
           KRoundTrip KEncCanonical KRightInverse KFlagBits KKeybytesRoundTrip KLeafExtDistinct
           Emit
CHECK_DEADLOCK FALSE
