SPECIFICATION Spec
CONSTANTS FullLen = 4
          SparseLen = 8
          PairLen = 4
          LongLens = {126, 127, 128, 129, 130, 252, 253, 254, 255, 256, 257, 258, 259, 260, 508, 509, 510, 511, 512, 513, 514, 515, 516, 1022, 1023, 1024, 1025, 1026}
INVARIANTS TypeOK UnreadIntact WriteBehindRead PairsInRange InPlaceSame
           KRoundTrip KEncCanonical KRightInverse KFlagBits KKeybytesRoundTrip KLeafExtDistinct
           Emit
CHECK_DEADLOCK FALSE
