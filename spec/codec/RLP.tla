-------------------------------- MODULE RLP --------------------------------
(***************************************************************************)
(* Recursive Length Prefix serialisation, transcribed from the Ethereum    *)
(* Yellow Paper, appendix B (equations 180-190), plus the "type-dependent  *)
(* decoding rules" of package rlp's documentation (rlp/doc.go) for the     *)
(* typed views.  Nothing here is copied from rlp/decode.go or rlp/raw.go.  *)
(*                                                                         *)
(* STABLE OPERATOR NAMES (other modules EXTEND this one):                  *)
(*                                                                         *)
(*   Byte, IsBytes(b)        byte strings are Seq(0..255)                  *)
(*   Str(b), Lst(xs), RawV(b)   constructors of the item tree              *)
(*        Item == [k |-> "s", b |-> Seq(Byte)]                             *)
(*              | [k |-> "l", xs |-> Seq(Item)]                            *)
(*              | [k |-> "r", b |-> Seq(Byte)]    (pre-encoded splice)     *)
(*   BE(n), BEVal(b)         big-endian minimal bytes <-> number (< 2^31)  *)
(*   Fill(n, b)              the byte string b^n                           *)
(*   Enc(item), EncSeq(items), EncStr(b), EncLen(n, off)  YP R_b, R_l      *)
(*   Hdr(bs)                 strict header of the first value of bs        *)
(*        [ok, k, h, p] / [ok |-> FALSE, c]  (h header len, p payload len) *)
(*   HdrLax(bs, lo, hi)      same on the window bs[lo..hi]; the rule       *)
(*        "a single byte < 0x80 is its own encoding" is reported in .sb    *)
(*   Dec(bs)                 total decoder: [ok, v, n] / [ok |-> FALSE, c] *)
(*   Accept(bs)              Dec(bs).ok                                    *)
(*   Top(T, bs)              typed decoder of exactly one value of type T  *)
(*   DecT(T, bs, lo, hi)     typed decoder of the first value in a window  *)
(*   WF(T, v)                v is a value of type T (item-tree form)       *)
(*   Split(bs), SplitString(bs), SplitList(bs), SplitUint64(bs),           *)
(*   CountValues(bs), ListIter(bs)   the raw helpers as operators on HdrLax *)
(*   type descriptors T:  TUint(n) TBig TU256 TBool TBytes TArr(n)         *)
(*        TList(e) TLArr(n,e) TStruct(fs) TNil(e,ek) TRaw TAny             *)
(*                                                                         *)
(* Typed values are item trees: an integer is the string of its minimal    *)
(* big-endian bytes (so no arithmetic on 64/256-bit numbers is needed),    *)
(* a bool is "" / 0x01, a struct/slice/array is the list of its elements,  *)
(* a raw value is an "r" node holding its encoding.                        *)
(* Rejections carry a SET of coarse classes c (every rule the offending    *)
(* value breaks): "canon" non-canonical size/integer, "short" input ends   *)
(* early / value larger than its container, "type" kind/size/arity does    *)
(* not fit the type, "trailing" more than one value.                       *)
(***************************************************************************)
EXTENDS Integers, Sequences, FiniteSets

Byte == 0..255
IsBytes(b) == \A i \in 1..Len(b) : b[i] \in Byte

Str(b)  == [k |-> "s", b |-> b]
Lst(xs) == [k |-> "l", xs |-> xs]
RawV(b) == [k |-> "r", b |-> b]

Fill(n, b) == [i \in 1..n |-> b]

(* BE: Yellow Paper (185): big-endian representation without leading zero. *)
RECURSIVE BE(_)
BE(n) == IF n = 0 THEN <<>> ELSE Append(BE(n \div 256), n % 256)

RECURSIVE BEVal(_)
BEVal(b) == IF Len(b) = 0 THEN 0 ELSE BEVal(SubSeq(b, 1, Len(b) - 1)) * 256 + b[Len(b)]

(* ------------------------------ encoding ------------------------------ *)
(* (181)/(184): length prefix; off = 128 for strings, 192 for lists.       *)
EncLen(n, off) == IF n < 56 THEN << off + n >>
                  ELSE LET l == BE(n) IN << off + 55 + Len(l) >> \o l

(* (181) R_b *)
EncStr(b) == IF Len(b) = 1 /\ b[1] < 128 THEN b ELSE EncLen(Len(b), 128) \o b

(* (183)-(186) R_l with s(x) the concatenation of the encoded elements *)
RECURSIVE Enc(_), EncSeq(_)
Enc(i) == CASE i.k = "s" -> EncStr(i.b)
            [] i.k = "l" -> LET p == EncSeq(i.xs) IN EncLen(Len(p), 192) \o p
            [] i.k = "r" -> i.b
EncSeq(xs) == IF Len(xs) = 0 THEN <<>> ELSE Enc(Head(xs)) \o EncSeq(Tail(xs))

(* ------------------------------ headers ------------------------------- *)
Bad(c) == [ok |-> FALSE, c |-> c]

(* Header of the value starting at bs[lo] inside a container ending at     *)
(* bs[hi].  ll = number of length bytes of the long form.  A length with   *)
(* more than 3 significant bytes exceeds every input the model can hold    *)
(* (and TLC's integers), so it is "short" without being evaluated.         *)
HdrLong(bs, lo, n, kind, ll) ==
  IF n - 1 < ll THEN Bad("short")
  ELSE IF bs[lo + 1] = 0 THEN Bad("canon")                  \* leading zero in the length
  ELSE IF ll > 3 THEN Bad("short")
  ELSE LET v == BEVal(SubSeq(bs, lo + 1, lo + ll)) IN
       IF v < 56 THEN Bad("canon")                          \* long form only for >= 56
       ELSE IF n - 1 - ll < v THEN Bad("short")
       ELSE [ok |-> TRUE, k |-> kind, h |-> 1 + ll, p |-> v, sb |-> FALSE]

HdrShort(bs, lo, n, kind, l) ==
  IF n - 1 < l THEN Bad("short")
  ELSE [ok |-> TRUE, k |-> kind, h |-> 1, p |-> l,
        sb |-> (kind = "s" /\ l = 1 /\ bs[lo + 1] < 128)]   \* should have been a single byte

HdrLax(bs, lo, hi) ==
  LET n == hi - lo + 1 IN
  IF n <= 0 THEN Bad("short")
  ELSE LET t == bs[lo] IN
       IF t < 128 THEN [ok |-> TRUE, k |-> "s", h |-> 0, p |-> 1, sb |-> FALSE]
       ELSE IF t < 184 THEN HdrShort(bs, lo, n, "s", t - 128)
       ELSE IF t < 192 THEN HdrLong(bs, lo, n, "s", t - 183)
       ELSE IF t < 248 THEN HdrShort(bs, lo, n, "l", t - 192)
       ELSE HdrLong(bs, lo, n, "l", t - 247)

HdrAt(bs, lo, hi) ==
  LET hd == HdrLax(bs, lo, hi) IN
  IF ~hd.ok THEN hd ELSE IF hd.sb THEN Bad("canon")
  ELSE [ok |-> TRUE, k |-> hd.k, h |-> hd.h, p |-> hd.p]

Hdr(bs) == HdrAt(bs, 1, Len(bs))

(* --------------------------- type descriptors -------------------------- *)
TUint(n)      == [t |-> "uint", n |-> n]          \* n = width in bytes: 1, 2, 4, 8
TBig          == [t |-> "big"]
TU256         == [t |-> "u256"]
TBool         == [t |-> "bool"]
TBytes        == [t |-> "bytes"]                  \* []byte
TString       == [t |-> "string"]                 \* string (same wire form as []byte)
TArr(n)       == [t |-> "arr", n |-> n]           \* [n]byte
TList(e)      == [t |-> "list", e |-> e]          \* []E
TLArr(n, e)   == [t |-> "larr", n |-> n, e |-> e] \* [n]E, E not byte
TStruct(fs)   == [t |-> "struct", fs |-> fs]
TNil(e, ek)   == [t |-> "nil", e |-> e, ek |-> ek] \* *E `rlp:"nil"`; ek = kind of the empty value
TRaw          == [t |-> "raw"]
TAny          == [t |-> "any"]                    \* interface{}

Rej(S) == [ok |-> FALSE, c |-> S]
NoLimit == 1073741824

(* integer rule: big-endian, no leading zero byte, at most maxn bytes *)
IntViol(bs, hd, plo, maxn) ==
  (IF hd.p > maxn THEN {"type"} ELSE {})
  \cup (IF hd.p > 0 /\ bs[plo] = 0 THEN {"canon"} ELSE {})
  \cup (IF hd.sb THEN {"canon"} ELSE {})

(* A value that claims more bytes than its container holds is always rejected, but a    *)
(* typed decoder may notice a type or canonicality problem of the claimed size / of the  *)
(* bytes it reads before it notices the overrun: the reason class is left open.          *)
ShortAs == {"short", "type", "canon"}

RECURSIVE DecT(_, _, _, _), DecElems(_, _, _, _), DecFields(_, _, _, _, _)

(* Decode the first value of the window bs[lo..hi] as type T.              *)
DecT(T, bs, lo, hi) ==
  LET hd == HdrLax(bs, lo, hi) IN
  IF ~hd.ok THEN Rej(IF hd.c = "short" THEN ShortAs ELSE {hd.c}) ELSE
  LET plo == lo + hd.h
      phi == plo + hd.p - 1
      tot == hd.h + hd.p
      pay == SubSeq(bs, plo, phi)
      sbv == IF hd.sb THEN {"canon"} ELSE {}
      Acc(v) == [ok |-> TRUE, v |-> v, n |-> tot]
      AccIf(viol, v) == IF viol # {} THEN Rej(viol) ELSE Acc(v)
      AsList(r) == IF r.ok THEN Acc(Lst(r.xs)) ELSE r
  IN
  CASE T.t = "raw"   -> Acc(RawV(SubSeq(bs, lo, phi)))   \* content of raw values is not interpreted
    [] T.t \in {"bytes", "string"} -> IF hd.k # "s" THEN Rej({"type"}) ELSE AccIf(sbv, Str(pay))
    [] T.t = "arr"   -> IF hd.k # "s" THEN Rej({"type"})
                        ELSE AccIf((IF hd.p # T.n THEN {"type"} ELSE {}) \cup sbv, Str(pay))
    [] T.t = "uint"  -> IF hd.k # "s" THEN Rej({"type"}) ELSE AccIf(IntViol(bs, hd, plo, T.n), Str(pay))
    [] T.t = "big"   -> IF hd.k # "s" THEN Rej({"type"}) ELSE AccIf(IntViol(bs, hd, plo, NoLimit), Str(pay))
    [] T.t = "u256"  -> IF hd.k # "s" THEN Rej({"type"}) ELSE AccIf(IntViol(bs, hd, plo, 32), Str(pay))
    [] T.t = "bool"  -> IF hd.k # "s" THEN Rej({"type"})
                        ELSE AccIf(IntViol(bs, hd, plo, 1)
                                   \cup (IF pay # <<>> /\ pay # <<1>> THEN {"type"} ELSE {}), Str(pay))
    [] T.t = "list"  -> IF hd.k # "l" THEN Rej({"type"}) ELSE AsList(DecElems(T.e, bs, plo, phi))
    [] T.t = "larr"  -> IF hd.k # "l" THEN Rej({"type"})
                        ELSE AsList(DecFields([i \in 1..T.n |-> T.e], 1, bs, plo, phi))
    [] T.t = "struct"-> IF hd.k # "l" THEN Rej({"type"}) ELSE AsList(DecFields(T.fs, 1, bs, plo, phi))
    [] T.t = "nil"   -> IF hd.h = 1 /\ hd.p = 0
                        THEN (IF hd.k = T.ek THEN Acc(IF T.ek = "s" THEN Str(<<>>) ELSE Lst(<<>>))
                              ELSE Rej({"type"}))
                        ELSE DecT(T.e, bs, lo, hi)
    [] T.t = "any"   -> IF hd.k = "s" THEN AccIf(sbv, Str(pay)) ELSE AsList(DecElems(T, bs, plo, phi))

(* all values of the window, each of type E *)
DecElems(E, bs, lo, hi) ==
  IF lo > hi THEN [ok |-> TRUE, xs |-> <<>>]
  ELSE LET r == DecT(E, bs, lo, hi) IN
       IF ~r.ok THEN r
       ELSE LET rest == DecElems(E, bs, lo + r.n, hi) IN
            IF ~rest.ok THEN rest ELSE [ok |-> TRUE, xs |-> << r.v >> \o rest.xs]

(* exactly the values fs[i..], nothing left over *)
DecFields(fs, i, bs, lo, hi) ==
  IF i > Len(fs) THEN (IF lo > hi THEN [ok |-> TRUE, xs |-> <<>>] ELSE Rej({"type"}))   \* too many elements
  ELSE IF lo > hi THEN Rej({"type"})                                                      \* too few elements
  ELSE LET r == DecT(fs[i], bs, lo, hi) IN
       IF ~r.ok THEN r
       ELSE LET rest == DecFields(fs, i + 1, bs, lo + r.n, hi) IN
            IF ~rest.ok THEN rest ELSE [ok |-> TRUE, xs |-> << r.v >> \o rest.xs]

(* exactly one value of type T *)
Top(T, bs) ==
  LET r == DecT(T, bs, 1, Len(bs)) IN
  IF ~r.ok THEN r ELSE IF r.n # Len(bs) THEN Rej({"trailing"}) ELSE r

(* first value of a stream of values (no trailing rule) *)
First(T, bs) == DecT(T, bs, 1, Len(bs))

Dec(bs)    == Top(TAny, bs)
Accept(bs) == Dec(bs).ok

(* ------------------------- well-formed typed values -------------------- *)
IntWF(b, maxn) == Len(b) <= maxn /\ (Len(b) > 0 => b[1] # 0)

RECURSIVE WF(_, _)
WF(T, v) ==
  CASE T.t = "raw"   -> v.k = "r"
    [] T.t \in {"bytes", "string"} -> v.k = "s"
    [] T.t = "arr"   -> v.k = "s" /\ Len(v.b) = T.n
    [] T.t = "uint"  -> v.k = "s" /\ IntWF(v.b, T.n)
    [] T.t = "big"   -> v.k = "s" /\ IntWF(v.b, NoLimit)
    [] T.t = "u256"  -> v.k = "s" /\ IntWF(v.b, 32)
    [] T.t = "bool"  -> v.k = "s" /\ (v.b = <<>> \/ v.b = <<1>>)
    [] T.t = "list"  -> v.k = "l" /\ \A i \in 1..Len(v.xs) : WF(T.e, v.xs[i])
    [] T.t = "larr"  -> v.k = "l" /\ Len(v.xs) = T.n /\ \A i \in 1..Len(v.xs) : WF(T.e, v.xs[i])
    [] T.t = "struct"-> v.k = "l" /\ Len(v.xs) = Len(T.fs) /\ \A i \in 1..Len(v.xs) : WF(T.fs[i], v.xs[i])
    [] T.t = "nil"   -> \/ v = (IF T.ek = "s" THEN Str(<<>>) ELSE Lst(<<>>))        \* the nil pointer
                        \/ (v # Str(<<>>) /\ v # Lst(<<>>) /\ WF(T.e, v))           \* empty values are nil
    [] T.t = "any"   -> \/ v.k = "s"
                        \/ v.k = "l" /\ \A i \in 1..Len(v.xs) : WF(T, v.xs[i])

(* ----------------------------- raw helpers ----------------------------- *)
(* rlp.Split and friends look at the first value of b only and return the  *)
(* remaining bytes.  kind: "byte" (the value is its own tag), "string",    *)
(* "list".                                                                 *)
Split(bs) ==
  LET hd == HdrLax(bs, 1, Len(bs)) IN
  IF ~hd.ok THEN Rej({hd.c}) ELSE IF hd.sb THEN Rej({"canon"})
  ELSE [ok |-> TRUE,
        kind |-> IF hd.h = 0 THEN "byte" ELSE IF hd.k = "s" THEN "string" ELSE "list",
        content |-> SubSeq(bs, 1 + hd.h, hd.h + hd.p),
        rest |-> SubSeq(bs, hd.h + hd.p + 1, Len(bs))]

SplitString(bs) ==
  LET s == Split(bs) IN
  IF ~s.ok THEN s ELSE IF s.kind = "list" THEN Rej({"type"})
  ELSE [ok |-> TRUE, content |-> s.content, rest |-> s.rest]

SplitList(bs) ==
  LET s == Split(bs) IN
  IF ~s.ok THEN s ELSE IF s.kind # "list" THEN Rej({"type"})
  ELSE [ok |-> TRUE, content |-> s.content, rest |-> s.rest]

(* x is returned as the minimal big-endian byte string *)
SplitUint64(bs) ==
  LET s == SplitString(bs) IN
  IF ~s.ok THEN s
  ELSE LET viol == (IF Len(s.content) > 8 THEN {"type"} ELSE {})
                   \cup (IF Len(s.content) > 0 /\ s.content[1] = 0 THEN {"canon"} ELSE {}) IN
       IF viol # {} THEN Rej(viol) ELSE [ok |-> TRUE, x |-> s.content, rest |-> s.rest]

(* number of values in b; headers only (strict), contents are not entered *)
RECURSIVE CountFrom(_, _, _)
CountFrom(bs, lo, cnt) ==
  IF lo > Len(bs) THEN [ok |-> TRUE, n |-> cnt]
  ELSE LET hd == HdrAt(bs, lo, Len(bs)) IN
       IF ~hd.ok THEN Rej({hd.c}) ELSE CountFrom(bs, lo + hd.h + hd.p, cnt + 1)
CountValues(bs) == CountFrom(bs, 1, 0)

(* rlp.NewListIterator / SplitListValues: the encodings of the elements of a list, headers  *)
(* only (strict); iteration yields the well-formed prefix and then the error class c          *)
RECURSIVE ElemsFrom(_, _, _)
ElemsFrom(bs, lo, acc) ==
  IF lo > Len(bs) THEN [elems |-> acc, c |-> {}]
  ELSE LET hd == HdrAt(bs, lo, Len(bs)) IN
       IF ~hd.ok THEN [elems |-> acc, c |-> {hd.c}]
       ELSE ElemsFrom(bs, lo + hd.h + hd.p, Append(acc, SubSeq(bs, lo, lo + hd.h + hd.p - 1)))
ListIter(bs) == LET s == SplitList(bs) IN
                IF ~s.ok THEN s
                ELSE LET e == ElemsFrom(s.content, 1, <<>>) IN [ok |-> TRUE, elems |-> e.elems, c |-> e.c]

(* ------------------------- laws (checked by MCRLP) --------------------- *)
(* canonical form: whatever is accepted for T re-encodes to the input *)
CanonicalFor(T, bs) == LET r == Top(T, bs) IN r.ok => (Enc(r.v) = bs /\ WF(T, r.v))
(* round trip: the encoding of a value of type T decodes to that value *)
RoundTripFor(T, v)  == WF(T, v) => LET r == Top(T, Enc(v)) IN r.ok /\ r.v = v
(* the raw helpers and the decoder agree on the first value *)
SplitAgrees(bs) ==
  LET s == Split(bs)  f == First(TAny, bs)  h == Hdr(bs) IN
  /\ s.ok = h.ok
  /\ (f.ok => s.ok /\ Len(bs) - Len(s.rest) = f.n
              /\ (s.kind = "list") = (f.v.k = "l")
              /\ (s.kind # "list" => s.content = f.v.b))
  /\ (~s.ok /\ s.c = {"canon"} => ~f.ok /\ f.c = {"canon"})
  /\ (~s.ok => ~f.ok /\ s.c \subseteq f.c)
  /\ (s.ok => LET c == CountValues(bs) IN c.ok => c.n >= 1)
  (* the iterator sees exactly the elements of a well-formed list *)
  /\ (f.ok /\ f.v.k = "l" => LET it == ListIter(bs) IN
         it.ok /\ it.c = {} /\ Len(it.elems) = Len(f.v.xs)
         /\ \A i \in 1..Len(it.elems) : Dec(it.elems[i]).ok /\ Dec(it.elems[i]).v = f.v.xs[i])
=============================================================================
