----------------------------- MODULE MCJumpDest -----------------------------
(* Model-checking wrapper of JumpDest.                                                     *)
(*  FN configurations (MCJumpDest.cfg / MCJumpDestThorough.cfg): one behaviour per code of *)
(*    the bounded domain (CodeSets = singletons); TLC checks the bit-vector algorithm       *)
(*    against the definition and the frame/cache machine on every code, and prints one      *)
(*    CASE line per code (INVARIANT EmitCase) for replay on core/vm (R).                   *)
(*  SM configuration (MCJumpDestCache.cfg): three codes sharing one cache; every edge of   *)
(*    the reachable graph is printed (ACTION_CONSTRAINT Edge) and replayed as a path.      *)
EXTENDS JumpDest, Json

CONSTANTS AlphaLen,    \* all codes up to this length over Alpha
          Aligns,      \* numbers of leading JUMPDESTs in schematic codes (bit alignment)
          Pushes       \* push sizes n of schematic codes

(* STOP, JUMPDEST, PUSH1/2/16/17/24/25/31/32: the sizes at which the fast paths switch *)
Alpha == {0, 91, 96, 97, 111, 112, 119, 120, 126, 127}

Fill(k, b) == [i \in 1..k |-> b]
AlphaCodes == UNION {[1..m -> Alpha] : m \in 0..AlphaLen}
(* a JUMPDESTs, PUSHn, then k bytes 0x5b: truncated pushes (k < n), exact (k = n), and code after the data *)
Schematic  == {Fill(a, JUMPDEST) \o << PUSH1 + n - 1 >> \o Fill(k, JUMPDEST) :
                  a \in Aligns, n \in Pushes, k \in 0..34} 
Domain     == AlphaCodes \cup Schematic
Singletons == {{c} : c \in Domain}

(* fixed codes of the cache machine: same length, different data positions *)
C1 == << 96, 91, 91, 91 >>        \* PUSH1 5b; JUMPDEST; JUMPDEST
C2 == << 91, 91, 91, 91 >>        \* four JUMPDESTs
C3 == << 97, 91, 91, 91 >>        \* PUSH2 5b5b; JUMPDEST
Trio == {{C1, C2, C3}}

TheCode == CHOOSE c \in codes : TRUE

SortedPositions(c, P(_)) == SelectSeq([i \in 1..(Len(c) + 2) |-> i - 1], P)

EmitCase ==
  (frame = NoFrame /\ \A c \in codes : cache[c] = NoBM) =>
    LET c == TheCode IN
    PrintT(<< "CASE", ToJson([code  |-> c,
                              valid |-> SortedPositions(c, LAMBDA p : ValidJumpdest(c, p)),
                              data  |-> SortedPositions(c, LAMBDA p : p \in ScanData(c))]) >>)

---------------------------------------------------------------------------
VARIABLE act

MCInit == Init /\ act = [op |-> "init"]
MCNext ==
  \/ \E c \in codes, b \in BOOLEAN : NewFrame(c, b) /\ act' = [op |-> "NewFrame", code |-> c, hashed |-> b]
  \/ \E pos \in (IF frame = NoFrame THEN {} ELSE Positions(frame.code)) :
        Jump(pos) /\ act' = [op |-> "Jump", pos |-> pos, valid |-> Answer(frame, cache, pos)]
  \/ \E c \in codes : Evict(c) /\ act' = [op |-> "Evict", code |-> c]
MCSpec == MCInit /\ [][MCNext]_<< vars, act >>
View == vars

Stored(ca) == SelectSeq(<< C1, C2, C3 >>, LAMBDA c : c \in DOMAIN ca /\ ca[c] # NoBM)
Proj(ca, fr) == [cache |-> Stored(ca),
                 frame |-> [code |-> fr.code, hashed |-> fr.hashed, analysed |-> fr.analysis # NoBM, live |-> fr.live]]
Edge == PrintT(<< "EDGE", ToJson([from |-> Proj(cache, frame), act |-> act', to |-> Proj(cache', frame')]) >>)
=============================================================================
