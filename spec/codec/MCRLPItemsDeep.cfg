SPECIFICATION MCSpec
CONSTANTS Depth = 3
          Width = 2
          NStr = 3
INVARIANTS RoundTrip EncCanonical RawView
CHECK_DEADLOCK FALSE
