-------------------------------- MODULE ABI --------------------------------
(* Contract ABI encoding and decoding (property C51), transcribed from the Solidity      *)
(* "Contract ABI Specification" (formal specification of the encoding): types, dynamic    *)
(* vs static, head/tail layout with offsets relative to the start of the enclosing        *)
(* tuple/array encoding, left padding of integers/address/bool (sign extension for        *)
(* intN), right padding of bytesN/bytes/string, length prefixes.  Memory is a sequence    *)
(* of bytes (0..255), so misaligned and overlapping offsets in malformed inputs have a    *)
(* defined meaning; numbers are read exactly when below 2^24 and are otherwise "huge"     *)
(* (certainly beyond any input considered).                                               *)
(*                                                                                       *)
(* Enc is the normative encoder.  Dec is the pointer-following decoder every ABI decoder  *)
(* implements: it fails exactly when a byte it has to read lies outside the input or a    *)
(* static leaf does not hold a value of its type.  Leniency is expressed by Verdict:      *)
(*   "reject"  the input cannot be decoded (out-of-bounds read or out-of-range leaf)      *)
(*   "accept"  the input is the canonical encoding of the decoded value plus trailing     *)
(*             bytes: the decoder must return exactly that value                          *)
(*   "either"  decodable but not canonical (dirty padding, odd offsets): a decoder may    *)
(*             reject, or accept with exactly the pointer-following value                 *)
EXTENDS Integers, Sequences, TLC

(* ------------------------------ types ----------------------------------------------- *)
(* [k, n, sub]: k kind, n bit width / byte count / array length, sub component types      *)
Ty(k, n, sub) == [k |-> k, n |-> n, sub |-> sub]
UintT(n)    == Ty("uint", n, << >>)
IntT(n)     == Ty("int", n, << >>)
BoolT       == Ty("bool", 0, << >>)
AddressT    == Ty("address", 0, << >>)
BytesNT(n)  == Ty("bytesN", n, << >>)
BytesT      == Ty("bytes", 0, << >>)
StringT     == Ty("string", 0, << >>)
ArrayT(e, n) == Ty("array", n, << e >>)
SliceT(e)   == Ty("slice", 0, << e >>)
TupleT(es)  == Ty("tuple", 0, es)

RECURSIVE IsDynamic(_)
IsDynamic(T) ==
  CASE T.k \in {"bytes", "string", "slice"} -> TRUE
    [] T.k = "array" -> IsDynamic(T.sub[1])
    [] T.k = "tuple" -> \E i \in DOMAIN T.sub : IsDynamic(T.sub[i])
    [] OTHER -> FALSE

(* bytes a component occupies in the head part of the enclosing encoding *)
RECURSIVE Size(_)
RECURSIVE SumSizes(_, _)
SumSizes(Ts, i) == IF i > Len(Ts) THEN 0 ELSE Size(Ts[i]) + SumSizes(Ts, i + 1)
Size(T) ==
  IF IsDynamic(T) THEN 32
  ELSE CASE T.k = "array" -> T.n * Size(T.sub[1])
         [] T.k = "tuple" -> SumSizes(T.sub, 1)
         [] OTHER -> 32

Copies(e, n) == [i \in 1..n |-> e]

(* ------------------------------ bytes ----------------------------------------------- *)
Rep(b, n) == [i \in 1..n |-> b]
NatWord(x) == Rep(0, 29) \o << (x \div 65536) % 256, (x \div 256) % 256, x % 256 >>       \* 0 <= x < 2^24
PadRight(bs) == bs \o Rep(0, (32 - (Len(bs) % 32)) % 32)
IsPrefix(a, b) == Len(a) <= Len(b) /\ \A i \in 1..Len(a) : a[i] = b[i]

(* ------------------------------ values ---------------------------------------------- *)
(* static leaf: its canonical 32-byte word; bytes/string: the data bytes;                 *)
(* array/slice/tuple: the sequence of component values                                    *)

(* the word w holds a value of the static leaf type T, canonically padded *)
LeafValid(T, w) ==
  CASE T.k = "uint"    -> \A i \in 1..(32 - T.n \div 8) : w[i] = 0
    [] T.k = "int"     -> LET top == 32 - T.n \div 8 + 1 IN
                          IF w[top] >= 128 THEN \A i \in 1..(top - 1) : w[i] = 255
                                           ELSE \A i \in 1..(top - 1) : w[i] = 0
    [] T.k = "bool"    -> (\A i \in 1..31 : w[i] = 0) /\ w[32] <= 1
    [] T.k = "address" -> \A i \in 1..12 : w[i] = 0
    [] T.k = "bytesN"  -> \A i \in (T.n + 1)..32 : w[i] = 0
(* what a lenient decoder makes of padding it does not check *)
LeafClean(T, w) ==
  CASE T.k = "address" -> Rep(0, 12) \o SubSeq(w, 13, 32)
    [] T.k = "bytesN"  -> SubSeq(w, 1, T.n) \o Rep(0, 32 - T.n)
    [] OTHER -> w
(* dirty padding that a decoder may ignore (it does not change the value) *)
LeafLenient(T) == T.k \in {"address", "bytesN"}

(* ------------------------------ Enc ------------------------------------------------- *)
RECURSIVE Enc(_, _)
RECURSIVE EncSeqAcc(_, _, _, _, _, _)
EncSeqAcc(Ts, vs, i, heads, tails, headLen) ==
  IF i > Len(Ts) THEN heads \o tails
  ELSE IF IsDynamic(Ts[i])
       THEN EncSeqAcc(Ts, vs, i + 1, heads \o NatWord(headLen + Len(tails)), tails \o Enc(Ts[i], vs[i]), headLen)
       ELSE EncSeqAcc(Ts, vs, i + 1, heads \o Enc(Ts[i], vs[i]), tails, headLen)
(* enc of a tuple of the given component types: heads, then tails *)
EncSeq(Ts, vs) == EncSeqAcc(Ts, vs, 1, << >>, << >>, SumSizes(Ts, 1))

Enc(T, v) ==
  CASE T.k \in {"bytes", "string"} -> NatWord(Len(v)) \o PadRight(v)
    [] T.k = "array" -> EncSeq(Copies(T.sub[1], T.n), v)
    [] T.k = "slice" -> NatWord(Len(v)) \o EncSeq(Copies(T.sub[1], Len(v)), v)
    [] T.k = "tuple" -> EncSeq(T.sub, v)
    [] OTHER -> v

(* ------------------------------ Dec ------------------------------------------------- *)
Fail == [ok |-> FALSE, val |-> << >>]
Ok(v) == [ok |-> TRUE, val |-> v]

InB(m, at)     == at >= 0 /\ at + 32 <= Len(m)                 \* the word at byte offset `at` is inside m
IsSmall(m, at) == \A i \in 1..29 : m[at + i] = 0
Num(m, at)     == m[at + 30] * 65536 + m[at + 31] * 256 + m[at + 32]

RECURSIVE DecAt(_, _, _, _)
RECURSIVE DecBody(_, _, _)
RECURSIVE DecSeqAcc(_, _, _, _, _, _)
(* components Ts[i..] with heads from byte offset hp on, offsets relative to `base` *)
DecSeqAcc(Ts, m, base, hp, i, acc) ==
  IF i > Len(Ts) THEN Ok(acc)
  ELSE LET r == DecAt(Ts[i], m, base, hp) IN
       IF ~r.ok THEN Fail ELSE DecSeqAcc(Ts, m, base, hp + Size(Ts[i]), i + 1, Append(acc, r.val))

(* the component of type T whose head slot is at byte offset `at` *)
DecAt(T, m, base, at) ==
  IF ~InB(m, at) THEN Fail
  ELSE IF IsDynamic(T)
       THEN IF ~IsSmall(m, at) THEN Fail ELSE DecBody(T, m, base + Num(m, at))
       ELSE CASE T.k = "array" -> DecSeqAcc(Copies(T.sub[1], T.n), m, at, at, 1, << >>)
              [] T.k = "tuple" -> DecSeqAcc(T.sub, m, at, at, 1, << >>)
              [] OTHER -> LET w == SubSeq(m, at + 1, at + 32) IN
                          IF LeafLenient(T) \/ LeafValid(T, w) THEN Ok(LeafClean(T, w)) ELSE Fail

(* the encoding of a dynamic T starting at byte offset p *)
DecBody(T, m, p) ==
  CASE T.k \in {"bytes", "string"} ->
         IF ~InB(m, p) \/ ~IsSmall(m, p) THEN Fail
         ELSE LET n == Num(m, p) IN IF p + 32 + n > Len(m) THEN Fail ELSE Ok(SubSeq(m, p + 33, p + 32 + n))
    [] T.k = "slice" ->
         IF ~InB(m, p) \/ ~IsSmall(m, p) THEN Fail
         ELSE LET n == Num(m, p) IN
              IF p + 32 + 32 * n > Len(m) THEN Fail
              ELSE DecSeqAcc(Copies(T.sub[1], n), m, p + 32, p + 32, 1, << >>)
    [] T.k = "array" -> IF p > Len(m) THEN Fail ELSE DecSeqAcc(Copies(T.sub[1], T.n), m, p, p, 1, << >>)
    [] T.k = "tuple" -> IF p > Len(m) THEN Fail ELSE DecSeqAcc(T.sub, m, p, p, 1, << >>)

(* an argument list is encoded like a tuple *)
EncArgs(Ts, vs) == EncSeq(Ts, vs)
DecArgs(Ts, m)  == DecSeqAcc(Ts, m, 0, 0, 1, << >>)

Verdict(Ts, m) ==
  LET r == DecArgs(Ts, m) IN
  IF ~r.ok THEN "reject"
  ELSE IF IsPrefix(EncArgs(Ts, r.val), m) THEN "accept" ELSE "either"
=============================================================================
