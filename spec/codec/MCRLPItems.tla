----------------------------- MODULE MCRLPItems -----------------------------
(* First half of C01 on the specification: for every bounded item tree, decoding its      *)
(* encoding gives the tree back, under every typed view the tree is a value of.           *)
EXTENDS RLP, Json, TLC

CONSTANTS Depth,     \* nesting depth of lists
          Width,     \* maximal number of children
          NStr       \* how many of the boundary strings are used

VARIABLE item

AllStrings == << <<>>, <<0>>, <<127>>, <<128>>, Fill(55, 1), Fill(56, 128), <<1>>, <<0, 1>>, <<1, 0>>,
                 <<255, 255, 255>> >>
Strings == { AllStrings[i] : i \in 1..NStr }

Seqs(S) == UNION { [1..n -> S] : n \in 0..Width }

RECURSIVE Items(_)
Items(d) == IF d = 0 THEN { Str(b) : b \in Strings }
            ELSE LET sub == Items(d - 1) IN sub \cup { Lst(xs) : xs \in Seqs(sub) }

Init == item \in Items(Depth)
Next == FALSE /\ UNCHANGED item
MCSpec == Init /\ [][Next]_item

Views == << TAny, TRaw, TBytes, TString, TUint(1), TUint(8), TBig, TU256, TBool, TArr(1), TArr(2), TArr(55),
            TList(TBytes), TList(TUint(8)), TList(TAny), TList(TList(TBytes)), TLArr(2, TBytes),
            TStruct(<<TBytes, TList(TBytes)>>), TStruct(<<TNil(TArr(1), "s"), TNil(TList(TBytes), "l")>>) >>

RoundTrip == \A i \in 1..Len(Views) : RoundTripFor(Views[i], item)
(* the encoding is accepted by the generic decoder and is the only accepted form: *)
(* the canonical law on it                                                        *)
EncCanonical == LET e == Enc(item) IN Accept(e) /\ Dec(e).v = item /\ Hdr(e).ok /\ Hdr(e).h + Hdr(e).p = Len(e)
(* raw view: the raw value of an encoding is the encoding *)
RawView == Top(TRaw, Enc(item)).v = RawV(Enc(item))

Emit == PrintT(<<"ENC", ToJson([item |-> item, enc |-> Enc(item)])>>)
=============================================================================
