SPECIFICATION MCSpec
CONSTANTS Emit = TRUE
          EditSyms = {0, 1, 128, 129, 184, 192}
INVARIANTS BasesOK Laws
CHECK_DEADLOCK FALSE
