---------------------------- MODULE JumpDestTrace ----------------------------
(* Trace validation for C30.  Each line is an observation on a real bytecode:              *)
(*   route "bitmap": valid = the positions < len(code) that codeBitmap marks as push data  *)
(*   other routes (frame-nohash, frame-cold, frame-warm, call-cold, call-warm, create):    *)
(*         valid = the positions 0..len+1 accepted as jump target through that route.      *)
(* Accepted iff the logged set is what the defining scan yields, and (for the bitmap) the  *)
(* fast-path model yields the same.                                                        *)
EXTENDS JumpDest, Json, IOUtils

Trace == ndJsonDeserialize(IOEnv.TRACE)

VARIABLE l
Ev == Trace[l]

AsSet(s) == {s[i] : i \in 1..Len(s)}

Explained ==
  LET c == Ev.code IN
  IF Ev.route = "bitmap"
    THEN LET sd == ScanData(c)  v == BitmapAlgo(c) IN
         /\ AsSet(Ev.valid) = sd
         /\ {p \in v.s : p < Len(c)} = sd /\ v.top < AllocBytes(c)
    ELSE /\ Ev.route \in {"frame-nohash", "frame-cold", "frame-warm", "call-cold", "call-warm", "create"}
         /\ AsSet(Ev.valid) = ValidSet(c)

TraceInit == codes = {} /\ cache = << >> /\ frame = NoFrame /\ l = 1
TraceNext == l <= Len(Trace) /\ Explained /\ l' = l + 1 /\ UNCHANGED vars
TraceSpec == TraceInit /\ [][TraceNext]_<< vars, l >>

TraceAccepted == TLCGet("stats").diameter - 1 = Len(Trace)
=============================================================================
