SPECIFICATION Spec
CONSTANTS
  Limits = {5000, 5001, 5120, 10000, 30000, 60000}
  BaseFees = {0, 1, 7, 8, 9, 1000, 12345, 70000}
  UsedSteps = 4
  Fracs = {1, 3, 10, 50, 128}
  Scheds = {1, 2, 5, 6, 7}
  Excesses = {0, 1, 9, 10, 11, 100, 128, 300, 1000, 131072, 393216}
  ExBaseFees = {0, 16, 17, 1000, 70000}
  DataSizes = {0, 1, 32, 33, 200}
  ListSizes = {0, 2}
INVARIANTS Emit
CHECK_DEADLOCK FALSE
