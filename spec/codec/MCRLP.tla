------------------------------- MODULE MCRLP -------------------------------
(* Model-checking wrapper for RLP.tla (property C01).                                    *)
(* The state is a byte string: a prefix grown one token per step from the boundary      *)
(* alphabet, optionally closed by one Fill(n, b) block.  TLC visits every such string;   *)
(* the invariants are the laws of the property on the specification itself, and Emit     *)
(* prints one CASE line per string with the verdict of every view, which the driver      *)
(* replays on package rlp.                                                               *)
EXTENDS RLP, Json, TLC

CONSTANTS FirstSyms,     \* first bytes explored by this run (a partition of Alphabet keeps runs small)
          MaxLen,        \* longest alphabet prefix
          FillBelow      \* a fill block may follow prefixes shorter than this (0: never)

VARIABLES pre, fill      \* fill = <<n, b>>, n = 0: none

Alphabet == {0, 1, 55, 56, 127, 128, 129, 130, 183, 184, 185, 191, 192, 193, 194, 247, 248, 249, 255}
Fills    == {<<n, b>> : n \in {55, 56, 255, 256}, b \in {1, 128}}
ASSUME FirstSyms \subseteq Alphabet

bs == pre \o Fill(fill[1], fill[2])

Init == pre = <<>> /\ fill = <<0, 0>>
Next == /\ fill[1] = 0
        /\ \/ Len(pre) < MaxLen /\ \E t \in (IF Len(pre) = 0 THEN FirstSyms ELSE Alphabet) : pre' = Append(pre, t) /\ UNCHANGED fill
           \/ Len(pre) < FillBelow /\ \E f \in Fills : fill' = f /\ UNCHANGED pre
MCSpec == Init /\ [][Next]_<<pre, fill>>

(* The typed views replayed on rlp.DecodeBytes (one Go type per descriptor). *)
Views == <<
  TAny, TRaw, TBytes,
  TUint(1), TUint(2), TUint(4), TUint(8), TBig, TU256, TBool,
  TArr(0), TArr(1), TArr(2), TArr(3), TArr(55), TArr(56),
  TList(TUint(8)), TList(TBytes), TList(TRaw), TList(TList(TBytes)),
  TLArr(2, TUint(2)),
  TStruct(<<>>),
  TStruct(<<TUint(8), TBytes>>),
  TStruct(<<TBool, TList(TUint(2)), TNil(TArr(1), "s")>>),
  TStruct(<<TNil(TStruct(<<TUint(1)>>), "l"), TBig>>) >>

(* ------------------------------- laws ---------------------------------- *)
Canonical  == \A i \in 1..Len(Views) : CanonicalFor(Views[i], bs)
Agreement  == SplitAgrees(bs)
(* a raw helper never accepts what it must call non-canonical, and the typed  *)
(* helpers refine Split                                                       *)
Helpers    == LET s == Split(bs) ss == SplitString(bs) sl == SplitList(bs) su == SplitUint64(bs) IN
              /\ (ss.ok \/ sl.ok) = s.ok
              /\ ~(ss.ok /\ sl.ok)
              /\ (su.ok => ss.ok /\ su.rest = ss.rest /\ First(TUint(8), bs).ok
                           /\ First(TUint(8), bs).v.b = su.x)
              /\ (First(TUint(8), bs).ok => su.ok)

(* The typed read methods of rlp.Stream, each on a fresh stream over the string: the first *)
(* value only, trailing bytes are not an error, the number of bytes consumed is observed.  *)
(* Uint64 Uint32 Uint16 Uint8 Bool BigInt ReadUint256 Bytes Raw ReadBytes(2) and a        *)
(* List / Uint64.. / ListEnd loop.                                                        *)
StreamOps == << TUint(8), TUint(4), TUint(2), TUint(1), TBool, TBig, TU256, TBytes, TRaw, TArr(2), TList(TUint(8)) >>

(* ------------------------------- cases --------------------------------- *)
Res(r) == IF r.ok THEN [ok |-> TRUE, v |-> r.v] ELSE [ok |-> FALSE, c |-> r.c]
Case == [in |-> pre, fill |-> fill,
         views |-> [i \in 1..Len(Views) |-> Res(Top(Views[i], bs))],
         stream |-> [i \in 1..Len(StreamOps) |-> LET f == First(StreamOps[i], bs) IN
                                                  IF f.ok THEN [ok |-> TRUE, v |-> f.v, n |-> f.n] ELSE f],
         first |-> LET f == First(TAny, bs) IN IF f.ok THEN [ok |-> TRUE, v |-> f.v, n |-> f.n] ELSE f,
         kind  |-> LET h == HdrLax(bs, 1, Len(bs)) IN
                   IF h.ok THEN [ok |-> TRUE, k |-> IF h.h = 0 THEN "byte" ELSE IF h.k = "s" THEN "string" ELSE "list",
                                 size |-> IF h.h = 0 THEN 0 ELSE h.p] ELSE [ok |-> FALSE, c |-> {h.c}],
         split |-> Split(bs), sstr |-> SplitString(bs), slist |-> SplitList(bs),
         suint |-> SplitUint64(bs), count |-> CountValues(bs), iter |-> ListIter(bs)]
Emit == PrintT(<<"CASE", ToJson(Case)>>)

ASSUME PrintT(<<"VIEWS", ToJson(Views)>>)
=============================================================================
