SPECIFICATION Spec
CONSTANTS
  Limits = {5000, 5001, 5002, 5003, 5119, 5120, 5121, 6144, 10000, 10001, 30000, 59999, 60000}
  BaseFees = {0, 1, 2, 6, 7, 8, 9, 15, 16, 17, 63, 64, 65, 100, 875, 1000, 1023, 1024, 12345, 30000, 70000}
  UsedSteps = 16
  Fracs = {1, 2, 3, 7, 10, 50, 100, 128, 1000}
  Scheds = {1, 2, 3, 4, 5, 6, 7, 8}
  Excesses = {0, 1, 2, 3, 5, 9, 10, 11, 49, 50, 51, 99, 100, 101, 127, 128, 129, 200, 300, 400, 500, 700, 1000, 131072, 262144, 393216, 786432, 1000000}
  ExBaseFees = {0, 1, 15, 16, 17, 32, 33, 100, 1000, 6448, 6449, 70000, 262143}
  DataSizes = {0, 1, 2, 31, 32, 33, 64, 65, 200, 1000}
  ListSizes = {0, 1, 2, 7}
INVARIANTS BaseFeeMaxChange BaseFeeDirection BaseFeeNonNegative BaseFeeMonotone ForkBlockBaseFee
           GasLimitInterval FakeExpLaws ExcessLaws IntrinsicLaws
CHECK_DEADLOCK FALSE
