SPECIFICATION TraceSpec
INVARIANTS RecordLaw
POSTCONDITION TraceAccepted
CHECK_DEADLOCK FALSE
