SPECIFICATION Spec
CONSTANTS
  Limits <- SmallLimits
  BaseFees <- SmallBaseFees
  UsedSteps = 48
  Fracs <- SmallFracs
  Scheds = {5, 6, 7}
  Excesses <- SmallExcesses
  ExBaseFees = {0, 1, 15, 16, 17, 31, 32, 33, 47, 48, 49, 100, 1000}
  DataSizes <- SmallData
  ListSizes = {0, 1}
INVARIANTS BaseFeeMaxChange BaseFeeDirection BaseFeeNonNegative BaseFeeMonotone ForkBlockBaseFee
           GasLimitInterval FakeExpLaws ExcessLaws IntrinsicLaws
CHECK_DEADLOCK FALSE
