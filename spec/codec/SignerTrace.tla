---------------------------- MODULE SignerTrace ----------------------------
(* Trace validation for C03.  The driver harness/cmd/c03 is built twice (libsecp256k1 via  *)
(* cgo, decred pure Go); both binaries run the same seeded plan and log one event per      *)
(* call.  The check zips the two logs: event = [op, a (cgo build), b (pure-Go build)].     *)
(* Every step demands a = b (the backends agree, down to recovered keys, signatures and    *)
(* addresses) and that the common result is one the specification admits:                  *)
(*   row     Sender on a (signer, transaction class) row: outcome in Allowed                *)
(*   rows    digest over all table rows (outcome + address) equal in both builds           *)
(*   sign    types.SignTx: outcome = SignOutcome, round trip recovers the signer           *)
(*   hash    signing hash = keccak of the EIP field list, independent of v/r/s             *)
(*   sender  repeated types.Sender calls on one object follow the cache machine            *)
(*   csign/recover/verify/pubkey   secp256k1 calls by input class                          *)
EXTENDS Signer, Json, IOUtils

Trace == ndJsonDeserialize(IOEnv.TRACE)

VARIABLE l
Ev == Trace[l]
A  == Ev.a

Step(P) == l <= Len(Trace) /\ P /\ l' = l + 1
Same == Ev.a = Ev.b
Keep == UNCHANGED <<tx, cache, out>>

TRow == Step(Ev.op = "row" /\ Same /\ A.got \in Allowed(A.sg, A.tx) /\ Keep)
TRows == Step(Ev.op = "rows" /\ Same /\ Keep)
THash == Step(Ev.op = "hash" /\ Same /\ A.preimageOK /\ A.sigIndependent /\ A.insensitive = 0 /\ Keep)

TSign == Step(/\ Ev.op = "sign" /\ Same /\ Keep
              /\ A.got = SignOutcome(A.sg, A.type, A.txChain)
              /\ (A.got = "ok" => A.recovered = "Signer" /\ A.shape = SignedTx(A.sg, A.type).vk))

TSender == Step(/\ Ev.op = "sender" /\ Same
                /\ LET t == IF A.first THEN A.tx ELSE tx
                       c == IF A.first THEN NoCache ELSE cache IN
                   /\ A.tx = t
                   /\ A.got \in Answers(t, c, A.sg)
                   /\ tx' = t
                   /\ cache' = CacheAfter(c, A.sg, A.got)
                   /\ out' = [signer |-> A.sg, res |-> A.got])

TCSign == Step(Ev.op = "csign" /\ Same /\ A.ok /\ A.lowS /\ A.v01 /\ A.selfRecovers /\ A.selfVerifies /\ Keep)
TRecover == Step(Ev.op = "recover" /\ Same /\ A.sigToPubSame /\ RecoverOK(A.class, A.ok, A.isKey) /\ Keep)
TVerify == Step(Ev.op = "verify" /\ Same /\ VerifyOK(A.class, A.res) /\ Keep)
TPubkey == Step(Ev.op = "pubkey" /\ Same /\ (A.class = "roundtrip" => A.ok) /\ Keep)
TEnd == Step(Ev.op = "end" /\ Same /\ Keep)          \* both logs have the same length

(* ---- recognised deviations -------------------------------------------------------------- *)
(* Each disjunct admits exactly one fingerprint and is enabled only when the check passes     *)
(* ADMIT_Fx = "1" (checks/C03.py: the finding is listed as open in known_findings.json).      *)
(* With "0" the event has no enabled step and the trace is rejected there.                    *)
(* C03-F1: EIP155Signer with chain id 0 signs the nine-field hash but emits v = 27/28; Sender  *)
(* then recovers over the six-field hash.                                                      *)
TKnownF1 == IOEnv.ADMIT_F1 = "1" /\
            Step(/\ Ev.op = "sign" /\ Same /\ Keep
                 /\ A.sg = [kind |-> EIP155, chain |-> 0] /\ A.type = LegacyTx
                 /\ A.got = "ok" /\ A.recovered = "Other" /\ A.shape = "u")
(* C03-F2: for digests >= n the two backends derive different RFC 6979 nonces: both           *)
(* signatures are valid low-s signatures of the key but differ.                               *)
TKnownF2 == IOEnv.ADMIT_F2 = "1" /\
            Step(/\ Ev.op = "csign" /\ Keep /\ A.class = "digestGeN"
                 /\ A.sig # Ev.b.sig /\ [A EXCEPT !.sig = ""] = [Ev.b EXCEPT !.sig = ""]
                 /\ A.ok /\ A.lowS /\ A.v01 /\ A.selfRecovers /\ A.selfVerifies)
TraceInit == l = 1 /\ tx = [type |-> -1] /\ cache = NoCache /\ out = [signer |-> NoCache.signer, res |-> "init"]
TraceNext == TRow \/ TRows \/ THash \/ TSign \/ TSender \/ TCSign \/ TRecover \/ TVerify \/ TPubkey \/ TEnd
             \/ TKnownF1 \/ TKnownF2
TraceSpec == TraceInit /\ [][TraceNext]_<<l, tx, cache, out>>

CacheOK == out.res = "init" \/ (CacheTransparent /\ CacheSound)
TraceAccepted == TLCGet("stats").diameter - 1 = Len(Trace)
=============================================================================
