---------------------------- MODULE KeystoreTrace ----------------------------
(* Trace validation for C52: each line is one real EncryptKey / alter / DecryptKey round     *)
(*   [field, mode, same, outcome]                                                          *)
(* on a random key and random passphrases (same = the tried passphrase equals the one used *)
(* for encryption), with one character of the named field replaced ("value": still hex,    *)
(* other bytes; "malformed": not hex; field "none": file semantically untouched).           *)
(* Accepted iff the outcome class is what the pipeline of Keystore.tla yields.             *)
EXTENDS Keystore, Json, IOUtils

Trace == ndJsonDeserialize(IOEnv.TRACE)

VARIABLE l
Ev == Trace[l]

Expected ==
  LET f == Alter(File0(1, "A"), << Ev.field, Ev.mode >>)
      r == Run(f, IF Ev.same THEN "A" ELSE "B")
  IN OutcomeOf(r, 1)

Explained ==
  /\ << Ev.field, Ev.mode >> \in Alterations
  /\ Ev.outcome = Expected

TraceInit ==
  /\ row = [key |-> 0, pass |-> "", try |-> "", alt |-> << "none", "value" >>]
  /\ file = Nil /\ stage = "done" /\ dk = Nil /\ result = Pending
  /\ KInit
  /\ l = 1
TraceNext == l <= Len(Trace) /\ Explained /\ l' = l + 1 /\ UNCHANGED << pvars, kvars >>
TraceSpec == TraceInit /\ [][TraceNext]_<< pvars, kvars, l >>

TraceAccepted == TLCGet("stats").diameter - 1 = Len(Trace)
=============================================================================
