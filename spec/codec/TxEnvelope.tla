----------------------------- MODULE TxEnvelope -----------------------------
(***************************************************************************)
(* Transaction envelopes (property C02), written from EIP-2718 (typed      *)
(* envelope), EIP-155/2930/1559/4844/7702 (field lists) and the EIP-4844 / *)
(* EIP-7594 network wrapper [tx, (version), blobs, commitments, proofs].   *)
(*                                                                         *)
(* A decoded transaction is                                                *)
(*    [typ |-> 0..4, v |-> item tree of the field list (RLP.tla form),     *)
(*     sc  |-> <<>> (no sidecar) or << [ver, blobs, comms, proofs] >> ]    *)
(* where blobs/comms/proofs are the item trees of the three lists.         *)
(*                                                                         *)
(* Operators: DecodeBinary(bs)  canonical binary form  (UnmarshalBinary)   *)
(*            DecodeNetwork(bs) element of an RLP list (DecodeRLP)         *)
(*            DecodeTxList(bs)  RLP list of transactions, EncodeTxList     *)
(*            Marshal(tx), EncodeNetwork(tx), HashPreimage(tx), Size(tx),  *)
(*            WithoutSidecar(tx)                                           *)
(* Rejection classes: those of RLP.tla plus "shorttyped" (typed envelope   *)
(* without payload) and "txtype" (unknown type byte).                      *)
(***************************************************************************)
EXTENDS RLP

CONSTANT BlobLen            \* 131072 in the protocol; a model constant so that TLC can use small blobs

TAddr    == TArr(20)
THash    == TArr(32)
TOptAddr == TNil(TAddr, "s")                     \* empty string = contract creation
TAccess  == TList(TStruct(<<TAddr, TList(THash)>>))

(* EIP-155 legacy: [nonce, gasPrice, gas, to, value, data, v, r, s] *)
LegacyS  == TStruct(<<TUint(8), TBig, TUint(8), TOptAddr, TBig, TBytes, TBig, TBig, TBig>>)
(* EIP-2930: [chainId, nonce, gasPrice, gas, to, value, data, accessList, yParity, r, s] *)
ALS      == TStruct(<<TBig, TUint(8), TBig, TUint(8), TOptAddr, TBig, TBytes, TAccess, TBig, TBig, TBig>>)
(* EIP-1559: [chainId, nonce, maxPriorityFee, maxFee, gas, to, value, data, accessList, yParity, r, s] *)
DynS     == TStruct(<<TBig, TUint(8), TBig, TBig, TUint(8), TOptAddr, TBig, TBytes, TAccess, TBig, TBig, TBig>>)
(* EIP-4844: [chainId, nonce, maxPriorityFee, maxFee, gas, to, value, data, accessList,      *)
(*            maxFeePerBlobGas, blobVersionedHashes, yParity, r, s]; `to` is never nil       *)
BlobS    == TStruct(<<TU256, TUint(8), TU256, TU256, TUint(8), TAddr, TU256, TBytes, TAccess, TU256,
                      TList(THash), TU256, TU256, TU256>>)
(* EIP-7702: authorization = [chainId, address, nonce, yParity, r, s] *)
AuthS    == TStruct(<<TU256, TAddr, TUint(8), TUint(1), TU256, TU256>>)
SetCodeS == TStruct(<<TU256, TUint(8), TU256, TU256, TUint(8), TAddr, TU256, TBytes, TAccess, TList(AuthS),
                      TU256, TU256, TU256>>)

TBlob    == TArr(BlobLen)
TKzg     == TArr(48)
WrapV0S  == TStruct(<<BlobS, TList(TBlob), TList(TKzg), TList(TKzg)>>)
WrapV1S  == TStruct(<<BlobS, TUint(1), TList(TBlob), TList(TKzg), TList(TKzg)>>)

Schema(typ) == CASE typ = 0 -> LegacyS [] typ = 1 -> ALS [] typ = 2 -> DynS [] typ = 3 -> BlobS [] typ = 4 -> SetCodeS

Tx(typ, v, sc) == [typ |-> typ, v |-> v, sc |-> sc]
OkTx(typ, v, sc) == [ok |-> TRUE, tx |-> Tx(typ, v, sc)]
NoSidecar == <<>>

(* ------------------------------ decoding ------------------------------- *)
(* Blob transactions come as the bare field list or wrapped with the       *)
(* sidecar; the two are told apart by the kind of the first element, and   *)
(* the versioned wrapper by the kind of the second.                        *)
DecodeBlobBody(b) ==
  LET h == HdrAt(b, 1, Len(b)) IN
  IF ~h.ok THEN Rej({h.c}) ELSE IF h.k # "l" THEN Rej({"type"}) ELSE
  LET lo == 1 + h.h   hi == h.h + h.p
      h1 == HdrAt(b, lo, hi) IN
  IF ~h1.ok THEN Rej({h1.c})
  ELSE IF h1.k = "s" THEN
       LET r == Top(BlobS, b) IN IF r.ok THEN OkTx(3, r.v, NoSidecar) ELSE r
  ELSE LET h2 == HdrAt(b, lo + h1.h + h1.p, hi) IN
       IF ~h2.ok THEN Rej({h2.c})
       ELSE IF h2.k = "l" THEN
            LET r == Top(WrapV0S, b) IN
            IF r.ok THEN OkTx(3, r.v.xs[1], << [ver |-> 0, blobs |-> r.v.xs[2], comms |-> r.v.xs[3], proofs |-> r.v.xs[4]] >>)
            ELSE r
       ELSE LET r == Top(WrapV1S, b) IN
            IF ~r.ok THEN r
            ELSE IF r.v.xs[2].b # <<1>> THEN Rej({"type"})            \* only wrapper version 1 exists
            ELSE OkTx(3, r.v.xs[1], << [ver |-> 1, blobs |-> r.v.xs[3], comms |-> r.v.xs[4], proofs |-> r.v.xs[5]] >>)

(* typed envelope: TransactionType || TransactionPayload (EIP-2718) *)
DecodeTyped(b) ==
  IF Len(b) <= 1 THEN Rej({"shorttyped"})
  ELSE IF b[1] \notin {1, 2, 3, 4} THEN Rej({"txtype"})
  ELSE LET body == SubSeq(b, 2, Len(b)) IN
       IF b[1] = 3 THEN DecodeBlobBody(body)
       ELSE LET r == Top(Schema(b[1]), body) IN IF r.ok THEN OkTx(b[1], r.v, NoSidecar) ELSE r

DecodeLegacy(b) == LET r == Top(LegacyS, b) IN IF r.ok THEN OkTx(0, r.v, NoSidecar) ELSE r

(* canonical binary form: first byte above 0x7f starts an RLP list (legacy) *)
DecodeBinary(b) == IF Len(b) > 0 /\ b[1] > 127 THEN DecodeLegacy(b) ELSE DecodeTyped(b)

(* inside an RLP list a typed transaction is the RLP string of its binary form *)
DecodeNetwork(b) ==
  LET hd == HdrLax(b, 1, Len(b)) IN
  IF ~hd.ok THEN Rej(IF hd.c = "short" THEN ShortAs ELSE {hd.c})
  ELSE IF hd.k = "l" THEN DecodeLegacy(b)
  ELSE IF hd.h = 0 THEN Rej({"shorttyped"})
  ELSE IF hd.sb THEN Rej({"canon"})
  ELSE LET r == DecodeTyped(SubSeq(b, 1 + hd.h, hd.h + hd.p)) IN
       IF ~r.ok THEN r ELSE IF hd.h + hd.p # Len(b) THEN Rej({"trailing"}) ELSE r

(* a list of transactions (block body, transaction messages): every element in the       *)
(* network form                                                                          *)
RECURSIVE DecTxElems(_, _, _)
DecTxElems(b, lo, hi) ==
  IF lo > hi THEN [ok |-> TRUE, txs |-> <<>>]
  ELSE LET hd == HdrLax(b, lo, hi) IN
       IF ~hd.ok THEN Rej(IF hd.c = "short" THEN ShortAs ELSE {hd.c})
       ELSE LET r == DecodeNetwork(SubSeq(b, lo, lo + hd.h + hd.p - 1)) IN
            IF ~r.ok THEN r
            ELSE LET rest == DecTxElems(b, lo + hd.h + hd.p, hi) IN
                 IF ~rest.ok THEN rest ELSE [ok |-> TRUE, txs |-> << r.tx >> \o rest.txs]

DecodeTxList(b) ==
  LET hd == HdrLax(b, 1, Len(b)) IN
  IF ~hd.ok THEN Rej(IF hd.c = "short" THEN ShortAs ELSE {hd.c})
  ELSE IF hd.k # "l" THEN Rej({"type"})
  ELSE LET r == DecTxElems(b, 1 + hd.h, hd.h + hd.p) IN
       IF ~r.ok THEN r ELSE IF hd.h + hd.p # Len(b) THEN Rej({"trailing"}) ELSE r

(* ------------------------------ encoding ------------------------------- *)
WithoutSidecar(tx) == Tx(tx.typ, tx.v, NoSidecar)

Body(tx) ==
  IF tx.sc = NoSidecar THEN Enc(tx.v)
  ELSE LET s == tx.sc[1] IN
       IF s.ver = 0 THEN Enc(Lst(<<tx.v, s.blobs, s.comms, s.proofs>>))
       ELSE Enc(Lst(<<tx.v, Str(<<s.ver>>), s.blobs, s.comms, s.proofs>>))

Marshal(tx)       == IF tx.typ = 0 THEN Enc(tx.v) ELSE <<tx.typ>> \o Body(tx)
EncodeNetwork(tx) == IF tx.typ = 0 THEN Enc(tx.v) ELSE EncStr(Marshal(tx))
RECURSIVE EncodeTxSeq(_)
EncodeTxSeq(txs)  == IF Len(txs) = 0 THEN <<>> ELSE EncodeNetwork(txs[1]) \o EncodeTxSeq(Tail(txs))
EncodeTxList(txs) == LET p == EncodeTxSeq(txs) IN EncLen(Len(p), 192) \o p
(* the hash commits to the envelope without the sidecar *)
HashPreimage(tx)  == Marshal(WithoutSidecar(tx))
Size(tx)          == Len(Marshal(tx))

WFTx(tx) == /\ tx.typ \in 0..4 /\ WF(Schema(tx.typ), tx.v)
            /\ (tx.sc # NoSidecar => tx.typ = 3 /\ tx.sc[1].ver \in {0, 1}
                                     /\ WF(TList(TBlob), tx.sc[1].blobs)
                                     /\ WF(TList(TKzg), tx.sc[1].comms) /\ WF(TList(TKzg), tx.sc[1].proofs))

(* -------------------------------- laws --------------------------------- *)
CanonicalBinary(b)  == LET r == DecodeBinary(b)  IN r.ok => Marshal(r.tx) = b /\ WFTx(r.tx)
CanonicalNetwork(b) == LET r == DecodeNetwork(b) IN r.ok => EncodeNetwork(r.tx) = b /\ WFTx(r.tx)
(* both forms describe the same transactions *)
FormsAgree(b) == LET r == DecodeBinary(b) IN
                 r.ok => LET n == DecodeNetwork(EncodeNetwork(r.tx)) IN n.ok /\ n.tx = r.tx
RoundTripTx(tx) == WFTx(tx) => LET r == DecodeBinary(Marshal(tx)) IN r.ok /\ r.tx = tx
CanonicalList(b)    == LET r == DecodeTxList(b) IN r.ok => EncodeTxList(r.txs) = b
SidecarFree(tx) == /\ HashPreimage(tx) = HashPreimage(WithoutSidecar(tx))
                   /\ DecodeBinary(HashPreimage(tx)).ok
                   /\ DecodeBinary(HashPreimage(tx)).tx = WithoutSidecar(tx)
=============================================================================
