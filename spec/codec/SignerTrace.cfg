SPECIFICATION TraceSpec
INVARIANTS CacheOK
POSTCONDITION TraceAccepted
CHECK_DEADLOCK FALSE
