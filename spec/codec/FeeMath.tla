------------------------------ MODULE FeeMath ------------------------------
(* Header fee and gas arithmetic (property C35), transcribed from the normative texts:  *)
(*   EIP-1559  base fee per gas, gas target/elasticity, header validity                 *)
(*   Yellow Paper (eq. 47-49) / EIP-1559 gas-limit adjustment bound, 5000 minimum       *)
(*   EIP-4844  excess blob gas, fake_exponential, base fee per blob gas                  *)
(*   EIP-7691 / EIP-7892 (BPO)  blob target/max/update-fraction are schedule parameters  *)
(*   EIP-7918  blob base fee bounded by execution cost (Osaka)                           *)
(*   EIP-2 / EIP-2028 / EIP-2930 / EIP-3860 / EIP-7702  intrinsic gas terms              *)
(*   EIP-7623  calldata floor                                                            *)
(*   EIP-2780 / EIP-7976 / EIP-7981 / EIP-8037 (Amsterdam, DRAFT) intrinsic + floor      *)
(* Nothing here is copied from the Go functions under test; the pseudo code of the EIPs  *)
(* is kept literally (e.g. one division by denominator*i in fake_exponential, a single   *)
(* max(..,1) in the base-fee increase).  All operators are pure; arithmetic is on TLC    *)
(* integers, so callers must stay in the domain where every product is < 2^31            *)
(* (SafeBaseFee / SafeFakeExp say where that is).                                        *)
EXTENDS Integers, Sequences, TLC

Max(a, b) == IF a > b THEN a ELSE b
Min(a, b) == IF a < b THEN a ELSE b
Abs(a)    == IF a < 0 THEN -a ELSE a
MaxInt    == 2147483647

(* ------------------------------ EIP-1559 ------------------------------------------- *)
ELASTICITY_MULTIPLIER            == 2
BASE_FEE_MAX_CHANGE_DENOMINATOR  == 8
INITIAL_BASE_FEE                 == 1000000000
GAS_LIMIT_ADJUSTMENT_FACTOR      == 1024
GAS_LIMIT_MINIMUM                == 5000

GasTarget(gasLimit) == gasLimit \div ELASTICITY_MULTIPLIER

(* expected_base_fee_per_gas of the block whose parent has (pLimit, pUsed, pBase).       *)
(* `london` = the parent is already an EIP-1559 block (FALSE: this is the fork block).   *)
ExpectedBaseFee(london, pLimit, pUsed, pBase) ==
  IF ~london THEN INITIAL_BASE_FEE
  ELSE LET target == GasTarget(pLimit) IN
       IF pUsed = target THEN pBase
       ELSE IF pUsed > target
            THEN LET gasUsedDelta == pUsed - target
                     baseFeeDelta == Max(((pBase * gasUsedDelta) \div target) \div BASE_FEE_MAX_CHANGE_DENOMINATOR, 1)
                 IN  pBase + baseFeeDelta
            ELSE LET gasUsedDelta == target - pUsed
                     baseFeeDelta == ((pBase * gasUsedDelta) \div target) \div BASE_FEE_MAX_CHANGE_DENOMINATOR
                 IN  pBase - baseFeeDelta

(* Gas limit of a block relative to the (adjusted) parent gas limit.                     *)
GasLimitOK(parentGasLimit, gasLimit) ==
  /\ gasLimit < parentGasLimit + parentGasLimit \div GAS_LIMIT_ADJUSTMENT_FACTOR
  /\ gasLimit > parentGasLimit - parentGasLimit \div GAS_LIMIT_ADJUSTMENT_FACTOR
  /\ gasLimit >= GAS_LIMIT_MINIMUM

(* On the fork block the parent gas limit is multiplied by the elasticity multiplier.    *)
AdjustedParentLimit(london, pLimit) == IF london THEN pLimit ELSE pLimit * ELASTICITY_MULTIPLIER

(* Header validity w.r.t. EIP-1559 (hBase = -1 stands for "field absent").               *)
Valid1559Header(london, pLimit, pUsed, pBase, hLimit, hBase) ==
  /\ GasLimitOK(AdjustedParentLimit(london, pLimit), hLimit)
  /\ hBase >= 0
  /\ hBase = ExpectedBaseFee(london, pLimit, pUsed, pBase)

SafeBaseFee(pLimit, pUsed, pBase) ==
  /\ pLimit >= 2 /\ pUsed >= 0 /\ pBase >= 0
  /\ pLimit <= 1000000000 /\ pUsed <= 1000000000
  /\ pBase <= MaxInt \div Max(Abs(pUsed - GasTarget(pLimit)), 1) - 1
  /\ pBase <= 1800000000                       \* pBase + pBase/8 + 1 stays below 2^31

(* ------------------------------ EIP-4844 / 7691 / 7918 ----------------------------- *)
GAS_PER_BLOB               == 131072
MIN_BASE_FEE_PER_BLOB_GAS  == 1
BLOB_BASE_COST             == 8192

RECURSIVE FakeExpLoop(_, _, _, _, _)
FakeExpLoop(i, output, accum, numerator, denominator) ==
  IF accum > 0
  THEN FakeExpLoop(i + 1, output + accum, (accum * numerator) \div (denominator * i), numerator, denominator)
  ELSE output

FakeExponential(factor, numerator, denominator) ==
  FakeExpLoop(1, 0, factor * denominator, numerator, denominator) \div denominator

(* largest intermediate value of the loop, used to delimit the TLC-safe domain without   *)
(* overflowing while doing so                                                            *)
RECURSIVE FakeExpSafeLoop(_, _, _, _, _)
FakeExpSafeLoop(i, output, accum, numerator, denominator) ==
  IF accum <= 0 THEN TRUE
  ELSE /\ accum <= MaxInt \div Max(numerator, 1)
       /\ output <= MaxInt - accum
       /\ denominator <= MaxInt \div i
       /\ FakeExpSafeLoop(i + 1, output + accum, (accum * numerator) \div (denominator * i), numerator, denominator)
SafeFakeExp(factor, numerator, denominator) ==
  /\ factor >= 0 /\ numerator >= 0 /\ denominator >= 1
  /\ factor <= MaxInt \div denominator
  /\ FakeExpSafeLoop(1, 0, factor * denominator, numerator, denominator)

BlobBaseFee(excessBlobGas, updateFraction) ==
  FakeExponential(MIN_BASE_FEE_PER_BLOB_GAS, excessBlobGas, updateFraction)

(* Blob schedule = [target, max, frac]; osaka = EIP-7918 active for the block.           *)
(* pExcess/pUsed are 0 when the parent predates EIP-4844.                                *)
CalcExcessBlobGas(osaka, sched, pExcess, pUsed, pBase) ==
  LET targetBlobGas == sched.target * GAS_PER_BLOB IN
  IF pExcess + pUsed < targetBlobGas THEN 0
  ELSE IF osaka /\ BLOB_BASE_COST * pBase > GAS_PER_BLOB * BlobBaseFee(pExcess, sched.frac)
       THEN pExcess + (pUsed * (sched.max - sched.target)) \div sched.max
       ELSE pExcess + pUsed - targetBlobGas

(* Header validity w.r.t. EIP-4844 (-1 = field absent).                                  *)
ValidBlobHeader(osaka, sched, pExcess, pUsed, pBase, hExcess, hUsed) ==
  /\ hExcess >= 0 /\ hUsed >= 0
  /\ hUsed <= sched.max * GAS_PER_BLOB
  /\ hUsed % GAS_PER_BLOB = 0
  /\ hExcess = CalcExcessBlobGas(osaka, sched, pExcess, pUsed, pBase)

SafeExcess(osaka, sched, pExcess, pUsed, pBase) ==
  /\ sched.target >= 0 /\ sched.max >= 1 /\ sched.target <= sched.max /\ sched.max <= 4096
  /\ sched.frac >= 1
  /\ pExcess >= 0 /\ pUsed >= 0 /\ pBase >= 0
  /\ pExcess <= 1000000000 /\ pUsed <= 1000000000
  /\ pUsed <= MaxInt \div sched.max
  /\ osaka => /\ pBase <= MaxInt \div BLOB_BASE_COST
              /\ SafeFakeExp(1, pExcess, sched.frac)
              /\ BlobBaseFee(pExcess, sched.frac) <= MaxInt \div GAS_PER_BLOB

(* ------------------------------ intrinsic gas -------------------------------------- *)
(* Rule sets relevant to the intrinsic cost, in activation order.                        *)
Frontier == 0  Homestead == 1  Istanbul == 2  Berlin == 3  Shanghai == 4  Prague == 5  Amsterdam == 6
Forks == Frontier..Amsterdam

TX_BASE_COST               == 21000
TX_CREATE_COST             == 32000      \* EIP-2 (Homestead)
TX_DATA_ZERO               == 4
TX_DATA_NONZERO_FRONTIER   == 68
TX_DATA_NONZERO_EIP2028    == 16         \* Istanbul
ACCESS_LIST_ADDRESS_COST   == 2400       \* EIP-2930 (Berlin)
ACCESS_LIST_STORAGE_KEY    == 1900
INITCODE_WORD_COST         == 2          \* EIP-3860 (Shanghai)
PER_EMPTY_ACCOUNT_COST     == 25000      \* EIP-7702 (Prague)
STANDARD_TOKEN_COST        == 4          \* EIP-7623
TOTAL_COST_FLOOR_PER_TOKEN == 10
TOKENS_PER_NONZERO_BYTE    == 4

(* Amsterdam drafts (EIP-2780, 7976, 7981, 8037, 8038), constants as published in-tree   *)
TX_BASE_COST_2780            == 12000
TX_VALUE_COST_2780           == 6000
COLD_ACCOUNT_ACCESS_AMS      == 3000
ACCOUNT_WRITE_AMS            == 9000
CREATE_ACCESS_AMS            == ACCOUNT_WRITE_AMS + COLD_ACCOUNT_ACCESS_AMS
PER_AUTH_BASE_COST_8037      == 7816
ACCESS_LIST_ADDRESS_COST_AMS == 2900
ACCESS_LIST_STORAGE_KEY_AMS  == 2000
FLOOR_PER_TOKEN_7976         == 16
ADDRESS_BYTES                == 20
STORAGE_KEY_BYTES            == 32

Words(n) == (n + 31) \div 32

(* tx = [create, self, value : BOOLEAN, nz, z, addrs, keys, auths : Nat]                 *)
(*   create: no recipient; self: recipient = sender; value: non-zero value transferred;  *)
(*   nz/z: non-zero / zero calldata bytes; addrs/keys: access-list entries; auths: 7702  *)
BaseCost2780(tx) ==
  TX_BASE_COST_2780
  + (IF tx.self THEN 0 ELSE IF tx.create THEN CREATE_ACCESS_AMS ELSE COLD_ACCOUNT_ACCESS_AMS)
  + (IF tx.value /\ ~tx.self /\ ~tx.create THEN TX_VALUE_COST_2780 ELSE 0)

DataCost(fork, tx) ==
  tx.z * TX_DATA_ZERO
  + tx.nz * (IF fork >= Istanbul THEN TX_DATA_NONZERO_EIP2028 ELSE TX_DATA_NONZERO_FRONTIER)
  + (IF tx.create /\ fork >= Shanghai THEN INITCODE_WORD_COST * Words(tx.nz + tx.z) ELSE 0)

AccessListTokens7981(tx) ==
  (tx.addrs * ADDRESS_BYTES + tx.keys * STORAGE_KEY_BYTES) * TOKENS_PER_NONZERO_BYTE

IntrinsicGas(fork, tx) ==
  IF fork >= Amsterdam
  THEN BaseCost2780(tx)
       + tx.auths * PER_AUTH_BASE_COST_8037
       + DataCost(fork, tx)
       + tx.addrs * ACCESS_LIST_ADDRESS_COST_AMS + tx.keys * ACCESS_LIST_STORAGE_KEY_AMS
       + AccessListTokens7981(tx) * FLOOR_PER_TOKEN_7976
  ELSE TX_BASE_COST
       + (IF tx.create /\ fork >= Homestead THEN TX_CREATE_COST ELSE 0)
       + tx.auths * PER_EMPTY_ACCOUNT_COST
       + DataCost(fork, tx)
       + tx.addrs * ACCESS_LIST_ADDRESS_COST + tx.keys * ACCESS_LIST_STORAGE_KEY

(* EIP-7623: tokens_in_calldata = zero_bytes + nonzero_bytes * 4;                        *)
(* floor = 21000 + TOTAL_COST_FLOOR_PER_TOKEN * tokens.  EIP-7976: every byte is 4       *)
(* tokens at 16; EIP-7981 adds the access-list bytes; anchored at the EIP-2780 base.     *)
FloorDataGas(fork, tx) ==
  IF fork >= Amsterdam
  THEN BaseCost2780(tx)
       + ((tx.nz + tx.z) * TOKENS_PER_NONZERO_BYTE + AccessListTokens7981(tx)) * FLOOR_PER_TOKEN_7976
  ELSE TX_BASE_COST + (tx.z + tx.nz * TOKENS_PER_NONZERO_BYTE) * TOTAL_COST_FLOOR_PER_TOKEN

(* Inputs that make sense for a rule set (typed transactions do not exist earlier).      *)
TxWellFormed(fork, tx) ==
  /\ (tx.addrs + tx.keys > 0 => fork >= Berlin)
  /\ (tx.addrs = 0 => tx.keys = 0)
  /\ (tx.auths > 0 => fork >= Prague /\ ~tx.create)
  /\ ~(tx.create /\ tx.self)

SafeTx(tx) == tx.nz + tx.z <= 1000000 /\ tx.addrs <= 10000 /\ tx.keys <= 10000 /\ tx.auths <= 10000
=============================================================================
