SPECIFICATION TraceSpec
CONSTANTS CodeSets = {}
POSTCONDITION TraceAccepted
CHECK_DEADLOCK FALSE
