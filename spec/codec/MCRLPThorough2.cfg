SPECIFICATION MCSpec
CONSTANTS FirstSyms = {128, 129, 130, 183, 184}
          MaxLen = 4
          FillBelow = 3
INVARIANTS Canonical Agreement Helpers Emit
CHECK_DEADLOCK FALSE
