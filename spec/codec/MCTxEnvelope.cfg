SPECIFICATION MCSpec
CONSTANTS Emit = TRUE
          BlobLen = 131072
          Bases = {1, 2, 3, 4, 5, 6, 7, 8}
          EditSyms = {0, 1, 128, 129, 184, 192}
INVARIANTS BasesWF Laws
CHECK_DEADLOCK FALSE
