SPECIFICATION TSpec
CONSTANTS Passes = {"A", "B", "E", "U"}
          Keys = {1, 2}
          MaxAccounts = 0
INVARIANTS RightPassOpens WrongPassFails AddressFromKey MacCovers StagedIsRun EmitRow
CHECK_DEADLOCK FALSE
