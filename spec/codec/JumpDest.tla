------------------------------ MODULE JumpDest ------------------------------
(* Property C30: a position of a bytecode is a valid jump target exactly when it holds the  *)
(* JUMPDEST opcode (0x5b) and does not lie inside the immediate data of a preceding PUSHn,  *)
(* and analyses cached by code hash give the same answer as a fresh analysis.               *)
(*                                                                                         *)
(* Three layers:                                                                           *)
(*  1. the definition (Yellow Paper 9.4.3, "valid jump destinations" D(c)): a left-to-right *)
(*     scan over instruction boundaries where PUSHn skips n bytes -- ScanData/ValidJumpdest;*)
(*  2. the analysis the code runs (core/vm/analysis_legacy.go:codeBitmapInternal): a bit   *)
(*     vector filled with the set16/set8/setN/set1 fast paths, where the second/third byte  *)
(*     of a chunk is *assigned*, not or-ed -- BitmapAlgo;                                   *)
(*  3. the use of the analysis by a contract frame (core/vm/contract.go:validJumpdest,     *)
(*     isCode): frame-local analysis, analysis shared through a cache keyed by code hash   *)
(*     (Load/Store), eviction -- the state machine NewFrame/Jump/Evict.                     *)
(* Positions are 0-based as in the EVM; code[pos+1] is the byte at position pos.           *)
EXTENDS Integers, Sequences, FiniteSets, TLC

CONSTANT CodeSets     \* set of sets of codes; one behaviour works on one of these sets

JUMPDEST == 91        \* 0x5b
PUSH1    == 96        \* 0x60
PUSH32   == 127       \* 0x7f
NoBM     == {-1}       \* "no analysis" (a value comparable with bit sets)
NoFrame  == [code |-> << >>, hashed |-> FALSE, analysis |-> NoBM, live |-> FALSE]

---------------------------------------------------------------------------
(* 1. Definition *)

PushLen(op) == IF op >= PUSH1 /\ op <= PUSH32 THEN op - PUSH1 + 1 ELSE 0

(* positions of push data, scanning instruction by instruction from pc *)
RECURSIVE ScanFrom(_, _)
ScanFrom(code, pc) ==
  IF pc >= Len(code) THEN {}
  ELSE LET n == PushLen(code[pc + 1]) IN
       {p \in (pc + 1)..(pc + n) : p < Len(code)} \cup ScanFrom(code, pc + n + 1)
ScanData(code) == ScanFrom(code, 0)

IsCode(code, pos)        == pos \notin ScanData(code)
ValidJumpdest(code, pos) == pos >= 0 /\ pos < Len(code) /\ code[pos + 1] = JUMPDEST /\ IsCode(code, pos)

(* the same definition as one pass over the instruction boundaries, collecting the JUMPDESTs   *)
(* met there (linear in the number of instructions: used on contract-sized codes)              *)
RECURSIVE ValidFrom(_, _, _)
ValidFrom(code, pc, acc) ==
  IF pc >= Len(code) THEN acc
  ELSE ValidFrom(code, pc + PushLen(code[pc + 1]) + 1, IF code[pc + 1] = JUMPDEST THEN acc \cup {pc} ELSE acc)
ValidSet(code) == ValidFrom(code, 0, {})

---------------------------------------------------------------------------
(* 2. The bit-vector analysis as the code computes it.  A bit vector is the set of set bit *)
(* indices; byte i holds bits 8i..8i+7.  "or" adds bits, "assign" replaces a whole byte.   *)
(* top records the highest byte index touched (bounds of the allocation).                  *)

ByteBits(i)            == (8 * i)..(8 * i + 7)
Max(a, b)              == IF a > b THEN a ELSE b
OrBits(v, lo, hi)      == [s |-> v.s \cup (lo..hi), top |-> Max(v.top, lo \div 8)]
AssignByte(v, i, lo, hi) == [s |-> (v.s \ ByteBits(i)) \cup (lo..hi), top |-> Max(v.top, i)]

Set1(v, pos) == OrBits(v, pos, pos)

(* setN(flag with n one-bits, pos): a = flag << (pos%8); low byte or-ed, high byte assigned if non-zero *)
SetN(v, n, pos) ==
  LET i == pos \div 8  last == pos + n - 1 IN
  IF last < 8 * (i + 1) THEN OrBits(v, pos, last)
  ELSE AssignByte(OrBits(v, pos, 8 * i + 7), i + 1, 8 * (i + 1), last)

(* set8: a = 0xFF << (pos%8); bits[i] |= a; bits[i+1] = ^a *)
Set8(v, pos) ==
  LET i == pos \div 8 IN
  AssignByte(OrBits(v, pos, 8 * i + 7), i + 1, 8 * (i + 1), pos + 7)

(* set16: bits[i] |= a; bits[i+1] = 0xFF; bits[i+2] = ^a *)
Set16(v, pos) ==
  LET i == pos \div 8 IN
  AssignByte(AssignByte(OrBits(v, pos, 8 * i + 7), i + 1, 8 * (i + 1), 8 * (i + 1) + 7),
             i + 2, 8 * (i + 2), pos + 15)

(* the data of one PUSH with numbits bytes of immediate, starting at pc *)
RECURSIVE Chunks(_, _, _)
Chunks(v, numbits, pc) ==
  IF numbits >= 16 THEN Chunks(Set16(v, pc), numbits - 16, pc + 16)
  ELSE IF numbits >= 8 THEN Chunks(Set8(v, pc), numbits - 8, pc + 8)
  ELSE IF numbits = 0 THEN v
  ELSE IF numbits = 1 THEN Set1(v, pc)
  ELSE SetN(v, numbits, pc)

RECURSIVE BitmapFrom(_, _, _)
BitmapFrom(code, pc, v) ==
  IF pc >= Len(code) THEN v
  ELSE LET n == PushLen(code[pc + 1]) IN
       IF n = 0 THEN BitmapFrom(code, pc + 1, v)
       ELSE BitmapFrom(code, pc + 1 + n, Chunks(v, n, pc + 1))

BitmapAlgo(code)  == BitmapFrom(code, 0, [s |-> {}, top |-> 0])
AllocBytes(code)  == Len(code) \div 8 + 1 + 4          \* make(BitVec, len(code)/8+1+4)
Analyse(code)     == BitmapAlgo(code).s                \* what codeBitmap returns
CodeSegment(bm, pos) == pos \notin bm

---------------------------------------------------------------------------
(* 3. Contract frames and the analysis cache *)

VARIABLES codes,    \* the set of codes of this behaviour (constant along it)
          cache,    \* [codes -> bitmap | NoBM]: analyses stored under the code's hash (hash injective)
          frame     \* NoFrame | [code, hashed, analysis, live]: the running contract frame

vars == << codes, cache, frame >>

Init ==
  /\ codes \in CodeSets
  /\ cache = [c \in codes |-> NoBM]
  /\ frame = NoFrame

(* evm.Call / Create: a new frame; regular contracts carry their code hash, initcode does not *)
NewFrame(c, hashed) ==
  /\ frame' = [code |-> c, hashed |-> hashed, analysis |-> NoBM, live |-> TRUE]
  /\ UNCHANGED << codes, cache >>

(* the analysis isCode consults in the current state *)
AnalysisUsed(fr, ca) ==
  IF fr.analysis # NoBM THEN fr.analysis
  ELSE IF fr.hashed /\ ca[fr.code] # NoBM THEN ca[fr.code]
  ELSE Analyse(fr.code)

NeedsAnalysis(fr, pos) == pos < Len(fr.code) /\ fr.code[pos + 1] = JUMPDEST

(* validJumpdest(dest) *)
Answer(fr, ca, pos) ==
  IF ~NeedsAnalysis(fr, pos) THEN FALSE ELSE CodeSegment(AnalysisUsed(fr, ca), pos)

Jump(pos) ==
  /\ frame # NoFrame
  /\ IF ~NeedsAnalysis(frame, pos)
       THEN UNCHANGED << cache, frame >>
       ELSE /\ frame' = [frame EXCEPT !.analysis = AnalysisUsed(frame, cache)]
            /\ cache' = IF frame.analysis = NoBM /\ frame.hashed /\ cache[frame.code] = NoBM
                          THEN [cache EXCEPT ![frame.code] = Analyse(frame.code)]
                          ELSE cache
  /\ UNCHANGED codes

(* the shared cache is a bounded LRU: any entry may disappear between two calls *)
Evict(c) ==
  /\ cache[c] # NoBM
  /\ cache' = [cache EXCEPT ![c] = NoBM]
  /\ UNCHANGED << codes, frame >>

Positions(c) == 0..(Len(c) + 1)

Next ==
  \/ \E c \in codes, b \in BOOLEAN : NewFrame(c, b)
  \/ \E pos \in (IF frame = NoFrame THEN {} ELSE Positions(frame.code)) : Jump(pos)
  \/ \E c \in codes : Evict(c)

Spec == Init /\ [][Next]_vars

---------------------------------------------------------------------------
(* Properties *)

SameOnCode(bm, c) == \A p \in 0..(Len(c) - 1) : (p \in bm) <=> (p \in ScanData(c))

(* the fast-path bit vector equals the definition on every position of the code and never *)
(* touches a byte outside its allocation (evaluated once per code set, in the initial state) *)
BitmapRight ==
  frame = NoFrame /\ (\A c \in codes : cache[c] = NoBM) =>
     \A c \in codes : /\ SameOnCode(Analyse(c), c)
                      /\ BitmapAlgo(c).top < AllocBytes(c)

ValidSetRight ==
  frame = NoFrame /\ (\A c \in codes : cache[c] = NoBM) =>
     \A c \in codes : ValidSet(c) = {p \in Positions(c) : ValidJumpdest(c, p)}

CacheSound == \A c \in codes : cache[c] # NoBM => SameOnCode(cache[c], c)
FrameSound == frame # NoFrame /\ frame.analysis # NoBM => SameOnCode(frame.analysis, frame.code)

(* THE PROPERTY: in every reachable state the frame answers every position by the definition ... *)
AnswerRight ==
  frame # NoFrame => \A pos \in Positions(frame.code) :
                     Answer(frame, cache, pos) = ValidJumpdest(frame.code, pos)

(* ... and an answer through the cache equals the answer of a fresh analysis *)
Fresh(c) == [code |-> c, hashed |-> FALSE, analysis |-> NoBM, live |-> TRUE]
CachedEqualsFresh ==
  frame # NoFrame => \A pos \in Positions(frame.code) :
                     Answer(frame, cache, pos) = Answer(Fresh(frame.code), [c \in codes |-> NoBM], pos)
=============================================================================
