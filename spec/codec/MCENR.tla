-------------------------------- MODULE MCENR --------------------------------
(* Model-checking wrapper for ENR.tla (record part of C45).  The base records are really  *)
(* signed by the harness (harness/cmd/c45 -mode enrbase) and read from the JSON file      *)
(* named by the environment variable BASES; TLC enumerates byte-level single edits and    *)
(* structural mutations of them, checks the canonical-form law and prints the verdicts.   *)
EXTENDS ENR, Json, IOUtils, TLC

CONSTANTS EditSyms, Emit

BasesFile == JsonDeserialize(IOEnv.BASES)
Bases     == BasesFile.bases                 \* << [raw, sig, content, pub], ... >>
Signed    == { [sig |-> Bases[i].sig, content |-> Bases[i].content, pub |-> Bases[i].pub] : i \in 1..Len(Bases) }

VARIABLES base, kind, pos, sym

Raw(b) == Bases[b].raw
R0(b)  == DecodeRecord(Raw(b)).r              \* only used for bases that decode

Edit(bs, k, p, s) ==
  CASE k = "none" -> bs
    [] k = "sub"  -> [bs EXCEPT ![p] = s]
    [] k = "ins"  -> SubSeq(bs, 1, p - 1) \o <<s>> \o SubSeq(bs, p, Len(bs))
    [] k = "del"  -> SubSeq(bs, 1, p - 1) \o SubSeq(bs, p + 1, Len(bs))

Swap(ps, i, j) == [ps EXCEPT ![i] = ps[j], ![j] = ps[i]]
PadKey == <<122, 122>>                                           \* "zz": sorts after every base key
(* value of n bytes: an RLP string of n-2 (n >= 58) resp. n-1 content bytes *)
PadValue(n) == IF n >= 58 THEN <<184, n - 2>> \o Fill(n - 2, 200) ELSE <<128 + (n - 1)>> \o Fill(n - 1, 200)

(* structural mutations, on the decoded base record *)
Struct(b, k, p) ==
  LET r == R0(b) IN
  CASE k = "swap"    -> EncodeRecord(Rec(r.sig, r.seq, Swap(r.pairs, p, p + 1)))
    [] k = "dup"     -> EncodeRecord(Rec(r.sig, r.seq, SubSeq(r.pairs, 1, p) \o SubSeq(r.pairs, p, Len(r.pairs))))
    [] k = "droppair"-> EncodeRecord(Rec(r.sig, r.seq, SubSeq(r.pairs, 1, p - 1) \o SubSeq(r.pairs, p + 1, Len(r.pairs))))
    [] k = "dropval" -> Enc(Lst(<< Str(r.sig), Str(r.seq) >> \o Flatten(SubSeq(r.pairs, 1, Len(r.pairs) - 1))
                                \o << Str(r.pairs[Len(r.pairs)].k) >>))
    [] k = "seq0"    -> Enc(Lst(<< Str(r.sig), Str(<<0>> \o r.seq) >> \o Flatten(r.pairs)))
    [] k = "seqbump" -> EncodeRecord(Rec(r.sig, r.seq \o <<1>>, r.pairs))
    [] k = "seq9"    -> EncodeRecord(Rec(r.sig, Fill(9, 1), r.pairs))
    [] k = "nosig"   -> EncodeRecord(Rec(<<>>, r.seq, r.pairs))
    [] k = "onlysig" -> Enc(Lst(<< Str(r.sig) >>))
    [] k = "empty"   -> Enc(Lst(<<>>))
    [] k = "pad"     -> EncodeRecord(Rec(r.sig, r.seq, r.pairs \o << [k |-> PadKey, v |-> PadValue(p)] >>))
    [] k = "rawval"  -> EncodeRecord(Rec(r.sig, r.seq, r.pairs \o << [k |-> PadKey, v |-> <<129, p>>] >>))   \* 0x81 p

Decodes(b) == DecodeRecord(Raw(b)).ok
StructCases(b) ==
  LET n == Len(R0(b).pairs)  sz == Len(Raw(b)) IN
  \/ kind' \in {"swap"} /\ pos' \in 1..(n - 1) /\ sym' = 0
  \/ kind' \in {"dup", "droppair"} /\ pos' \in 1..n /\ sym' = 0
  \/ kind' \in {"dropval", "seq0", "seqbump", "seq9", "nosig", "onlysig", "empty"} /\ pos' = 0 /\ sym' = 0
  \/ kind' = "pad" /\ pos' \in {v \in {2, 40, 295 - sz, 296 - sz, 297 - sz, 298 - sz, 299 - sz} : v >= 2} /\ sym' = 0
  \/ kind' = "rawval" /\ pos' \in {0, 5, 127, 128} /\ sym' = 0

(* byte edits everywhere in the small bases; in the size-limit bases (padding) only in the  *)
(* headers at the front and at the very end                                               *)
EditPos(b) == IF Len(Raw(b)) > 200 THEN (1..8) \cup {Len(Raw(b))} ELSE 1..Len(Raw(b))
Cases(b) ==
  \/ kind' = "none" /\ pos' = 0 /\ sym' = 0
  \/ kind' = "sub" /\ pos' \in EditPos(b) /\ sym' \in EditSyms \ {Raw(b)[pos']}
  \/ kind' = "ins" /\ pos' \in EditPos(b) \cup {Len(Raw(b)) + 1} /\ sym' \in EditSyms
  \/ kind' = "del" /\ pos' \in EditPos(b) /\ sym' = 0
  \/ Decodes(b) /\ StructCases(b)

Init == base = 0 /\ kind = "start" /\ pos = 0 /\ sym = 0
Next == kind = "start" /\ \E b \in 1..Len(Bases) : base' = b /\ Cases(b)
MCSpec == Init /\ [][Next]_<<base, kind, pos, sym>>

in == IF kind \in {"none", "sub", "ins", "del"} THEN Edit(Raw(base), kind, pos, sym) ELSE Struct(base, kind, pos)

(* every base with a genuine signature that fits the limits is accepted *)
BasesOK == \A b \in 1..Len(Bases) : Bases[b].valid = AcceptRecord(Raw(b), Signed)

Out(d) == IF d.ok THEN [ok |-> TRUE, r |-> d.r] ELSE [ok |-> FALSE, c |-> d.c]
Laws == kind # "start" =>
        LET d == DecodeRecord(in) IN
        /\ (d.ok => EncodeRecord(d.r) = in /\ Len(in) <= SizeLimit /\ Sorted(d.r) /\ IntWF(d.r.seq, 8))
        /\ (Emit => PrintT(<<"CASE", ToJson([base |-> base, kind |-> kind, pos |-> pos, sym |-> sym, in |-> in,
                                            dec |-> Out(d), accept |-> (d.ok /\ SigValid(d.r, Signed))])>>))
=============================================================================
