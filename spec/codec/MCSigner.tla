------------------------------ MODULE MCSigner ------------------------------
(* Model-checking wrapper of Signer.                                                      *)
(*  table mode (MCSigner.cfg / MCSignerQuick.cfg): one initial state per (signer, signed  *)
(*    transaction) row; TLC checks the table laws and prints every row with the admitted   *)
(*    outcomes (CASE), every signing row (SIGN), the fork->signer map (FORK) and the       *)
(*    signing-hash field lists (HASHFIELDS) for replay on core/types (R).                  *)
(*  cache mode (MCSignerCache.cfg): behaviours of repeated Sender calls with different     *)
(*    signers on one transaction object; simulated behaviours are printed (MBT).           *)
EXTENDS Signer, Json

CONSTANTS TxChains,      \* chain ids occurring in transactions (typed field / EIP-155 v)
          Mode,          \* "table" | "cache"
          Full           \* TRUE: full product of v / r / s / parity / hash classes

VARIABLE hist            \* cache mode: sequence of [signer, res]
vars == <<tx, cache, out, hist>>

(* value anomalies one at a time *)
RS == IF Full THEN RKinds \X SKinds ELSE {<<r, "low">> : r \in RKinds} \cup {<<"ok", s>> : s \in SKinds}

Row(t, c, vk, vc, par, hash, rs) ==
  [type |-> t, chain |-> c, vk |-> vk, vchain |-> vc, par |-> par, hash |-> hash, r |-> rs[1], s |-> rs[2]]

LegacyRows ==
  {Row(LegacyTx, -1, "u", -1, p, h, rs) : p \in Pars, h \in Hashes, rs \in RS}
  \cup {Row(LegacyTx, -1, "prot", vc, p, h, rs) : vc \in TxChains, p \in Pars, h \in Hashes, rs \in RS}
  \cup {Row(LegacyTx, -1, vk, -1, p, "match", <<"ok", "low">>) : vk \in {"raw", "junk", "huge"}, p \in Pars}
  \cup {Row(LegacyTx, -1, vk, -1, p, h, rs) : vk \in {x \in {"raw", "junk", "huge"} : Full}, p \in Pars, h \in Hashes, rs \in RS}
TypedRows ==
  {Row(t, c, "par", -1, p, h, rs) : t \in AccessListTx..SetCodeTx, c \in TxChains, p \in Pars, h \in Hashes, rs \in RS}
  \cup {Row(t, c, vk, -1, "ok", "match", <<"ok", "low">>) : t \in AccessListTx..SetCodeTx, c \in TxChains, vk \in TypedVKinds \ {"par"}}
  \cup {Row(t, c, vk, -1, p, h, rs) : t \in AccessListTx..SetCodeTx, c \in TxChains, vk \in {x \in TypedVKinds \ {"par"} : Full},
                                      p \in Pars, h \in Hashes, rs \in RS}
TxRows == LegacyRows \cup TypedRows

(* cache mode: a few transaction objects, all signers *)
CacheTxs ==
  UNION {{SignedTx(sg, t) : t \in TypesOf(sg.kind)} : sg \in {s \in Signers : s.chain \in {-1, 1, 1337}}}
  \cup {Row(LegacyTx, -1, "u", -1, "ok", "match", <<"ok", "highM">>),
        Row(LegacyTx, -1, "u", -1, "flip", "match", <<"ok", "highM">>),
        Row(DynamicFeeTx, 1, "par", -1, "flip", "match", <<"ok", "low">>),
        Row(LegacyTx, -1, "prot", 1, "ok", "mismatch", <<"ok", "low">>)}
CacheSigners == {s \in Signers : s.chain \in {-1, 1, 1337}}

Init ==
  /\ cache = NoCache /\ hist = << >>
  /\ IF Mode = "table"
     THEN \E sg \in Signers : tx \in TxRows /\ out = [signer |-> sg, res |-> "init"]
     ELSE tx \in CacheTxs /\ out = [signer |-> NoCache.signer, res |-> "init"]

Next ==
  /\ Mode = "cache"
  /\ \E sg \in CacheSigners : SenderCall(sg)
  /\ hist' = Append(hist, out')

Spec == Init /\ [][Next]_vars

(* ---- table invariants (row = (out.signer, tx)) ---- *)
IsRow == Mode = "table"
TableLaws ==
  IsRow => /\ RowNonEmpty(out.signer, tx) /\ RowHighS(out.signer, tx) /\ RowRange(out.signer, tx)
           /\ RowChain(out.signer, tx) /\ RowMonotone(out.signer, tx)

EmitRow == IsRow => PrintT(<<"CASE", ToJson([sg |-> out.signer, tx |-> tx, allowed |-> Allowed(out.signer, tx)])>>)

(* printed once (from the first signer / first row only) *)
First == IsRow /\ out.signer = [kind |-> Frontier, chain |-> -1] /\ tx = Row(LegacyTx, -1, "u", -1, "ok", "match", <<"ok", "low">>)
(* laws quantifying over the whole table: evaluated once *)
GlobalLaws == First => (RoundTrip /\ CrossSigner /\ HashExcludesSignature)
EmitStatic ==
  First =>
    /\ \A sg \in Signers, t \in TxTypes, c \in TxChains :
         PrintT(<<"SIGN", ToJson([sg |-> sg, type |-> t, txChain |-> c, outcome |-> SignOutcome(sg, t, c),
                                  signed |-> SignedTx(sg, t)])>>)
    /\ \A i \in DOMAIN ForkNames : PrintT(<<"FORK", ToJson([fork |-> ForkNames[i], idx |-> i, kind |-> KindOfFork(i), latest |-> LatestKindOfFork(i)])>>)
    /\ \A t \in TxTypes : PrintT(<<"HASHFIELDS", ToJson([type |-> t, protected |-> TRUE, fields |-> SigHashFields(t, TRUE)])>>)
    /\ PrintT(<<"HASHFIELDS", ToJson([type |-> LegacyTx, protected |-> FALSE, fields |-> SigHashFields(LegacyTx, FALSE)])>>)

(* ---- cache mode ---- *)
CacheLaws == Mode = "cache" => CacheTransparent /\ CacheSound
Depth == 3
Bound == Len(hist) <= Depth
EmitMBT == IF Mode = "cache" /\ Len(hist) = Depth THEN PrintT(<<"MBT", ToJson([tx |-> tx, calls |-> hist])>>) ELSE TRUE
View == <<tx, cache, out, Len(hist)>>
=============================================================================
