SPECIFICATION MCSpec
CONSTANTS CodeSets <- Singletons
          AlphaLen = 5
          Aligns = {0, 1, 2, 3, 4, 5, 6, 7, 8}
          Pushes = {1, 2, 3, 4, 5, 6, 7, 8, 9, 10, 11, 12, 13, 14, 15, 16, 17, 18, 19, 20, 21, 22, 23, 24, 25, 26, 27, 28, 29, 30, 31, 32}
INVARIANTS BitmapRight ValidSetRight CacheSound FrameSound AnswerRight CachedEqualsFresh EmitCase
VIEW View
CHECK_DEADLOCK FALSE
