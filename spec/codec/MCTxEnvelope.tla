---------------------------- MODULE MCTxEnvelope ----------------------------
(* Model-checking wrapper for TxEnvelope.tla (property C02).  The inputs are all single   *)
(* edits (substitute / insert a symbol of the edit alphabet, delete) at every position of *)
(* the binary form of one small transaction per type and sidecar form.  TLC checks the    *)
(* canonical-form laws on every input and prints one CASE line per input, replayed on     *)
(* types.Transaction by harness/cmd/c02.                                                  *)
EXTENDS TxEnvelope, Json, TLC

CONSTANTS Bases,     \* indices of the base transactions used
          EditSyms   \* the edit alphabet

VARIABLES base, kind, pos, sym

addr  == Fill(20, 17)
hash  == Fill(32, 34)
B(x)  == Str(<<x>>)
AL1   == Lst(<< Lst(<< Str(addr), Lst(<< Str(hash) >>) >>) >>)
AL0   == Lst(<<>>)
Auth1 == Lst(<< B(1), Str(addr), B(2), B(1), B(8), B(9) >>)

BlobV == Lst(<< B(1), B(2), B(3), B(4), B(5), Str(addr), B(6), B(7), AL0, B(8), Lst(<< Str(hash) >>), B(1), B(9), B(10) >>)
Kzg(x) == Lst(<< Str(Fill(48, x)) >>)
SomeBlobs == IF BlobLen <= 8 THEN Lst(<< Str(Fill(BlobLen, 5)) >>) ELSE Lst(<<>>)   \* real blobs are too large for the model

BaseTx == <<
  (* 1 *) Tx(0, Lst(<< B(1), B(2), B(3), Str(addr), B(4), B(5), B(37), B(6), B(7) >>), NoSidecar),
  (* 2 *) Tx(0, Lst(<< Str(<<>>), B(2), B(3), Str(<<>>), Str(<<>>), Str(<<128, 1>>), B(27), B(6), B(7) >>), NoSidecar),
  (* 3 *) Tx(1, Lst(<< B(1), B(2), B(3), B(4), Str(addr), B(5), B(6), AL1, B(1), B(8), B(9) >>), NoSidecar),
  (* 4 *) Tx(2, Lst(<< B(1), B(2), B(3), B(4), B(5), Str(<<>>), B(6), Str(<<>>), AL0, Str(<<>>), B(8), B(9) >>), NoSidecar),
  (* 5 *) Tx(3, BlobV, NoSidecar),
  (* 6 *) Tx(3, BlobV, << [ver |-> 0, blobs |-> SomeBlobs, comms |-> Kzg(3), proofs |-> Kzg(4)] >>),
  (* 7 *) Tx(3, BlobV, << [ver |-> 1, blobs |-> SomeBlobs, comms |-> Kzg(3), proofs |-> Lst(<<>>)] >>),
  (* 8 *) Tx(4, Lst(<< B(1), B(2), B(3), B(4), B(5), Str(addr), B(6), B(7), AL0, Lst(<< Auth1 >>), B(1), B(9), B(10) >>), NoSidecar)
>>

BinAll == [b \in 1..Len(BaseTx) |-> Marshal(BaseTx[b])]     \* constant: evaluated once
Bin(b) == BinAll[b]

Edit(bs, k, p, s) ==
  CASE k = "none" -> bs
    [] k = "sub"  -> [bs EXCEPT ![p] = s]
    [] k = "ins"  -> SubSeq(bs, 1, p - 1) \o <<s>> \o SubSeq(bs, p, Len(bs))
    [] k = "del"  -> SubSeq(bs, 1, p - 1) \o SubSeq(bs, p + 1, Len(bs))

Cases(b) == \/ kind' = "none" /\ pos' = 0 /\ sym' = 0
            \/ kind' = "sub" /\ pos' \in 1..Len(Bin(b)) /\ sym' \in EditSyms \ {Bin(b)[pos']}
            \/ kind' = "ins" /\ pos' \in 1..(Len(Bin(b)) + 1) /\ sym' \in EditSyms
            \/ kind' = "del" /\ pos' \in 1..Len(Bin(b)) /\ sym' = 0
(* one start state whose successors are the cases, so that TLC's workers share them *)
Init == base = 0 /\ kind = "start" /\ pos = 0 /\ sym = 0
Next == kind = "start" /\ \E b \in Bases : base' = b /\ Cases(b)
MCSpec == Init /\ [][Next]_<<base, kind, pos, sym>>

in  == Edit(Bin(base), kind, pos, sym)
(* the same bytes as an element of an RLP list: typed payloads travel as strings *)
net == IF Len(in) > 0 /\ in[1] > 127 THEN in ELSE EncStr(in)

BasesWF   == \A b \in Bases : WFTx(BaseTx[b]) /\ RoundTripTx(BaseTx[b]) /\ SidecarFree(BaseTx[b])

(* the laws, on the decoding results r (binary) and n (network) of the case *)
CanonicalR(r)  == r.ok => Marshal(r.tx) = in /\ WFTx(r.tx)
CanonicalN(n)  == n.ok => EncodeNetwork(n.tx) = net /\ WFTx(n.tx)
SidecarR(r)    == r.ok => SidecarFree(r.tx)
(* the case followed by the first base transaction, as a list of two transactions *)
Net1 == EncodeNetwork(BaseTx[1])
lst  == EncLen(Len(net) + Len(Net1), 192) \o net \o Net1
ListLaw(n) == /\ CanonicalList(lst)
              /\ (n.ok => LET r == DecodeTxList(lst) IN r.ok /\ r.txs = << n.tx, BaseTx[1] >>)
(* a one-byte payload cannot travel as a string, otherwise both readings agree *)
NetMatches(r, n) == (Len(in) # 1) => (r.ok = n.ok /\ (r.ok => r.tx = n.tx))

Out(r) == IF r.ok THEN [ok |-> TRUE, typ |-> r.tx.typ, v |-> r.tx.v, sc |-> r.tx.sc,
                        bin |-> Marshal(r.tx), pre |-> HashPreimage(r.tx)]
          ELSE [ok |-> FALSE, c |-> r.c]

(* Listed in the cfg: every law on every case, evaluated on one decoding of the input;   *)
(* with Emit = TRUE the case and the specification's verdict are printed for replay.    *)
CONSTANT Emit
Laws == kind # "start" =>
        LET r == DecodeBinary(in)  n == DecodeNetwork(net) IN
        /\ CanonicalR(r) /\ CanonicalN(n) /\ SidecarR(r) /\ NetMatches(r, n) /\ ListLaw(n)
        /\ (Emit => PrintT(<<"CASE", ToJson([base |-> base, kind |-> kind, pos |-> pos, sym |-> sym,
                                              in |-> in, net |-> net, rbin |-> Out(r), rnet |-> Out(n),
                                              lst |-> lst, rlst |-> LET x == DecodeTxList(lst) IN
                                                 IF x.ok THEN [ok |-> TRUE, bins |-> [i \in 1..Len(x.txs) |-> Marshal(x.txs[i])]]
                                                 ELSE [ok |-> FALSE, c |-> x.c]])>>))
=============================================================================
