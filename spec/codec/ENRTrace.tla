------------------------------ MODULE ENRTrace ------------------------------
(* Trace validation for ENR.tla: "signed" events declare a genuinely produced signature   *)
(* triple, "record" events are one decode + verification of a byte string by p2p/enr and  *)
(* p2p/enode; each must have the specification's verdict, content and re-encoding.        *)
EXTENDS ENR, Json, IOUtils, TLC

Trace == ndJsonDeserialize(IOEnv.TRACE)
VARIABLES l, signed
Ev == Trace[l]
Step(A) == l <= Len(Trace) /\ A /\ l' = l + 1

TSigned == Step(Ev.op = "signed" /\ signed' = signed \cup {[sig |-> Ev.sig, content |-> Ev.content, pub |-> Ev.pub]})
TRecord == Step(Ev.op = "record" /\ UNCHANGED signed /\ LET d == DecodeRecord(Ev.in) IN
                /\ d.ok = Ev.ok
                /\ (~d.ok => Ev.cls \in d.c /\ ~Ev.accept)
                /\ (d.ok => /\ d.r = Ev.r /\ Ev.reenc = Ev.in /\ EncodeRecord(d.r) = Ev.in
                            /\ Ev.accept = SigValid(d.r, signed)))

TraceInit == l = 1 /\ signed = {}
TraceNext == TSigned \/ TRecord
TraceSpec == TraceInit /\ [][TraceNext]_<<l, signed>>
(* accepted records are canonical, sorted, within the limit: evaluated on every decoded input *)
RecordLaw == (l > 1 /\ l - 1 <= Len(Trace) /\ Trace[l - 1].op = "record") => CanonicalRecord(Trace[l - 1].in)
TraceAccepted == TLCGet("stats").diameter - 1 = Len(Trace)
=============================================================================
