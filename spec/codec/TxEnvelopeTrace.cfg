SPECIFICATION TraceSpec
CONSTANTS BlobLen = 131072
          KnownFindings = TRUE
INVARIANTS KnownReport
POSTCONDITION TraceAccepted
CHECK_DEADLOCK FALSE
