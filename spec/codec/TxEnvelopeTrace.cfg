SPECIFICATION TraceSpec
CONSTANTS BlobLen = 131072
POSTCONDITION TraceAccepted
CHECK_DEADLOCK FALSE
