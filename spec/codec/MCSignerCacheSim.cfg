SPECIFICATION Spec
CONSTANTS
  TxChains = {1, 1337}
  Full = FALSE
  Mode = "cache"
INVARIANTS CacheLaws
CONSTRAINT EmitMBT
CHECK_DEADLOCK FALSE
