SPECIFICATION MCSpec
CONSTANTS FirstSyms = {185, 191, 192, 193, 194}
          MaxLen = 4
          FillBelow = 3
INVARIANTS Canonical Agreement Helpers Emit
CHECK_DEADLOCK FALSE
