-------------------------- MODULE FeeMathBigTrace --------------------------
(* Trace validation of the fee functions at mainnet magnitudes (C35): numbers are logged    *)
(* as base-10000 digit sequences (least significant first) and the formulas are evaluated    *)
(* over BigNat (FeeMathBig).  Blob events use params.MainnetChainConfig itself: the event     *)
(* names the fork era of the block, the specification supplies the published schedule.       *)
EXTENDS FeeMathBig, Json, IOUtils

Trace == ndJsonDeserialize(IOEnv.TRACE)

VARIABLE l
Ev == Trace[l]
Step(A) == l <= Len(Trace) /\ A /\ l' = l + 1
InDomain(ok) == Assert(ok, <<"c35: malformed big-number event", l>>)

(* published mainnet blob parameters per fork era: EIP-4844, EIP-7691, EIP-7892 (BPO1/2);    *)
(* Osaka (EIP-7918) keeps the Prague schedule                                                *)
Eras == [cancun |-> [target |-> 3,  max |-> 6,  frac |-> 3338477,  osaka |-> FALSE],
         prague |-> [target |-> 6,  max |-> 9,  frac |-> 5007716,  osaka |-> FALSE],
         osaka  |-> [target |-> 6,  max |-> 9,  frac |-> 5007716,  osaka |-> TRUE],
         bpo1   |-> [target |-> 10, max |-> 15, frac |-> 8346193,  osaka |-> TRUE],
         bpo2   |-> [target |-> 14, max |-> 21, frac |-> 11684671, osaka |-> TRUE]]
Sched(era) == [target |-> Eras[era].target, max |-> Eras[era].max, frac |-> B(Eras[era].frac)]

TBaseFee == Step(/\ Ev.fn = "bigbasefee"
                 /\ InDomain(IsBig(Ev.pLimit) /\ IsBig(Ev.pUsed) /\ IsBig(Ev.pBase) /\ Le(B(2), Ev.pLimit))
                 /\ Ev.out = BigExpectedBaseFee(Ev.london, Ev.pLimit, Ev.pUsed, Ev.pBase))
TVerify1559 == Step(/\ Ev.fn = "bigverify1559"
                    /\ InDomain(IsBig(Ev.pLimit) /\ IsBig(Ev.pUsed) /\ IsBig(Ev.pBase) /\ IsBig(Ev.hLimit) /\ Le(B(2), Ev.pLimit))
                    /\ Ev.ok = BigValid1559Header(Ev.london, Ev.pLimit, Ev.pUsed, Ev.pBase, Ev.hLimit, Ev.hBase))
TGasLimit == Step(/\ Ev.fn = "biggaslimit"
                  /\ InDomain(IsBig(Ev.pLimit) /\ IsBig(Ev.hLimit))
                  /\ Ev.ok = BigGasLimitOK(Ev.pLimit, Ev.hLimit))
TBlobFee == Step(/\ Ev.fn = "bigblobfee"
                 /\ InDomain(Ev.era \in DOMAIN Eras /\ IsBig(Ev.excess))
                 /\ Ev.out = BigBlobBaseFee(Ev.excess, Sched(Ev.era).frac))
TExcess == Step(/\ Ev.fn = "bigexcess"
                /\ InDomain(Ev.era \in DOMAIN Eras /\ IsBig(Ev.pExcess) /\ IsBig(Ev.pUsed) /\ IsBig(Ev.pBase))
                /\ Ev.out = BigCalcExcessBlobGas(Eras[Ev.era].osaka, Sched(Ev.era), Ev.pExcess, Ev.pUsed, Ev.pBase))

TraceInit == l = 1
TraceNext == TBaseFee \/ TVerify1559 \/ TGasLimit \/ TBlobFee \/ TExcess
TraceSpec == TraceInit /\ [][TraceNext]_l
TraceAccepted == TLCGet("stats").diameter - 1 = Len(Trace)
=============================================================================
