---------------------------- MODULE MCHexPrefix ----------------------------
(* Model-checking wrapper of HexPrefix: TLC checks the laws on the whole bounded domain   *)
(* (MCHexPrefix*.cfg) and, with INVARIANT Emit, prints one CASE line per HEX key of the   *)
(* domain -- the expected results of every conversion -- which harness/cmd/c10 replays on *)
(* the real functions of trie/encoding.go (R).                                            *)
EXTENDS HexPrefix, Json

Emit ==
  pc = "start" =>
    PrintT(<< "CASE", ToJson([hex      |-> h,
                              compact  |-> HexToCompact(h),
                              back     |-> CompactToHex(HexToCompact(h)),
                              even     |-> Len(Strip(h)) % 2 = 0,
                              keybytes |-> IF Len(Strip(h)) % 2 = 0 THEN HexToKeybytes(h) ELSE << >>,
                              leaf     |-> IsLeafKey(h)]) >>)
=============================================================================
