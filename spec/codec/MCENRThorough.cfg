SPECIFICATION MCSpec
CONSTANTS Emit = TRUE
          EditSyms = {0, 1, 55, 56, 127, 128, 129, 130, 183, 184, 185, 191, 192, 193, 194, 247, 248, 249, 255}
INVARIANTS BasesOK Laws
CHECK_DEADLOCK FALSE
